from fractions import Fraction

import json
from harness import core, msggen, drvgen, drvcmp
from harness.props import c10 as numref


def expected_flags(defn, ops):
    """which properties and elements a device exposes, from its declarations and ITS OWN history alone:
    {property: (exposed, [element enabled...])}"""
    groups = drvgen.effective_groups(defn)
    gflag = {g["key"]: bool(g["enabled"]) for g in groups}
    vflag, eflag, gof = {}, {}, {}
    for g in groups:
        for v in g["vectors"]:
            vflag[v["name"]] = bool(v["enabled"])
            eflag[v["name"]] = [bool(e["enabled"]) for e in v["elements"]]
            gof[v["name"]] = g["key"]
    for op in ops:
        if op[0] == "envec":
            vflag[op[1]] = bool(op[2])
        elif op[0] == "engrp":
            gflag[op[1]] = bool(op[2])
        elif op[0] == "enelem":
            eflag[op[1]][op[2]] = bool(op[3])
    return {vn: (vflag[vn] and gflag[gof[vn]], eflag[vn]) for vn in vflag}


def expected_defs(before, name):
    """what the property demands of one addressed device, from its public state just before the request"""
    out = []
    for v in before:
        if name is not None and name != "" and v["name"] != name:
            continue
        if not v["enabled"]:
            continue
        out.append(v)
    return out


def check_def(msg, v, devname):
    a = msg["attrs"]
    if msg["kind"] != "def%sVector" % v["kind"]:
        return "kind %s for a %s property" % (msg["kind"], v["kind"])
    want = {"device": devname, "name": v["name"], "state": v["state"], "label": v["label"], "group": v["group"]}
    if v["kind"] != "Light":
        want.update(perm=v["perm"], timeout=v["timeout"])
    if v["kind"] == "Switch":
        want["rule"] = v["rule"]
    for k, x in want.items():
        if a.get(k) != x:
            return "metadata %s is %r, the device has %r" % (k, a.get(k), x)
    en = [e for e in v["elements"] if e["enabled"]]
    ch = msg["children"] or []
    if [c["attrs"].get("name") for c in ch] != [e["name"] for e in en]:
        return "elements listed %s, enabled elements %s" % ([c["attrs"].get("name") for c in ch], [e["name"] for e in en])
    for c, e in zip(ch, en):
        if c["attrs"].get("label") != e["label"]:
            return "element label"
        t, x = e["value"]
        if t == "t" and (c["value"] or None) != ((x or "").strip() or None):
            return "text value %r, device has %r" % (c["value"], x)
        if t == "s" and c["value"] != ("On" if x else "Off"):
            return "switch value"
        if t == "l" and c["value"] != x:
            return "light value"
        if t == "n":
            if x is None:
                if c["value"] is not None:
                    return "number value for an unset number"
                continue
            d = numref.ref_denote(c["value"] or "")
            if d is None:
                return "number text %r is not an INDI number" % c["value"]
            res, strict = numref.resolution(e["fmt"])
            err = abs(d - Fraction(x))
            if (err >= res) if strict else (err > res):
                return "number %r does not denote %s under %s" % (c["value"], x, e["fmt"])
    return None


class C07(core.Prop):
    id = "C07"
    prop_file = "C07.v"
    impl_module = "c07"
    entry = "drivers"
    correspondence = "generated Driver subclasses on a real Router (histories, then getProperties) vs Driver.Model.run per device"
    uses_registry = True
    rule = ("deployments of 1-3 generated drivers (1-3 groups, five vector kinds, three rules, printf and sexagesimal formats, disabled groups / "
            "vectors / elements, BLOBs set or unset, inheritance depth <= 3; in a third of the cases a twin: a second driver built from the same "
            "declarations under another name) x bounded histories of driver-side operations and client writes x "
            "a getProperties request with device in {each, none, unknown} and name in {existing, disabled, unknown, absent}; non-trivial = request "
            "that must elicit at least one definition; distinct by content")
    assumptions = ["no Read handlers in these deployments (C14 covers the event contract)",
                   "text values have no leading/trailing whitespace (the normalisation C03 allows)"]

    def gen(self, rng, tier):
        cases = []
        for i in range(250 if tier == "quick" else 6000):
            nd = rng.randint(1, 3)
            devices = []
            for k in range(nd):
                defn = drvgen.gen_definition(rng, "DEV%d" % k)
                ops = [drvgen.random_op(rng, defn) for _ in range(rng.randint(0, 8))]
                devices.append({"defn": defn, "ops": ops})
            if rng.random() < 0.35:
                # a second driver built from the same declarations (a subclass under another name): what one of
                # them does to its properties and elements must not show in the other
                k = rng.randrange(len(devices))
                defn = json.loads(json.dumps(devices[k]["defn"]))
                defn["name"] = devices[k]["defn"]["name"] + "T"
                ops = [drvgen.random_op(rng, defn) for _ in range(rng.randint(0, 4))]
                devices.append({"defn": defn, "ops": ops, "twin_of": k})
            if i % 6 == 0:
                # flags changed while the enclosing group is disabled must be remembered when it comes back
                dd = devices[0]
                vecs0 = drvgen.all_vectors(dd["defn"])
                vn0 = rng.choice(sorted(vecs0))
                g0, v0 = vecs0[vn0]
                dd["ops"] = dd["ops"][:3] + [["engrp", g0["key"], False], ["envec", vn0, rng.random() < 0.7 and False or True],
                                             ["enelem", vn0, rng.randrange(len(v0["elements"])), rng.random() < 0.5],
                                             ["engrp", g0["key"], True]] + dd["ops"][3:5]
            target = rng.choice(devices)
            vecs = drvgen.all_vectors(target["defn"])
            name = rng.choice([None, None, rng.choice(sorted(vecs)), "NOPE", ""])
            tn = target["defn"]["name"]
            dev = rng.choice([tn, tn, tn, None, "UNKNOWN", tn[:-1], tn[1:], "", tn + "X", tn.lower()])
            cases.append({"devices": devices, "request": {"device": dev, "name": name}})
        return cases

    def addressed(self, c, dd):
        return c["request"]["device"] is None or c["request"]["device"] == dd["defn"]["name"]

    def req_msg(self, c, dd):
        kw = {"version": "1.7"}
        if c["request"]["device"] is not None:
            kw["device"] = c["request"]["device"]
        if c["request"]["name"] is not None:
            kw["name"] = c["request"]["name"]
        return {"kind": "getProperties", "attrs": kw, "value": None, "children": None}

    def model_input(self, c):
        out = []
        for dd in c["devices"]:
            ops = list(dd["ops"]) + ([["client", self.req_msg(c, dd)]] if self.addressed(c, dd) else [])
            out.append([drvgen.enc_dev(dd["defn"]), [drvgen.enc_op(dd["defn"], o) for o in ops]])
        return out

    def compare(self, c, obs, mout):
        if obs["status"] != "ok":
            return "implementation %s %s" % (obs["status"], obs.get("detail", ""))
        if not isinstance(mout, list) or any(not isinstance(m, list) for m in mout):
            return "model rejected the input"
        resp = [e[1] for e in obs["responses"]]
        for i, (dd, io, mo) in enumerate(zip(c["devices"], obs["devices"], mout)):
            traces, st, allwf = mo
            if not allwf:
                return "device %d: the model emits a message that is not constructible over the live registry (wfb false)" % i
            d = drvcmp.compare_ops(dd["ops"], io["ops"], traces[:len(dd["ops"])], "device %d " % i)
            if d:
                return d
            if drvcmp.model_state(st) != io["state"]:
                return "device %d: final state differs" % i
            mine = [v for v in resp if v["attrs"].get("device") == dd["defn"]["name"]]
            want = []
            if self.addressed(c, dd):
                want = [e[1] for e in drvcmp.model_trace(traces[len(dd["ops"])])[0] if e[0] == "pub"]
            if mine != want:
                return "device %d: responses to getProperties differ: impl %d messages, model %d" % (i, len(mine), len(want))
        return None

    def oracle(self, c, obs):
        if obs["status"] != "ok":
            return "crashed: %s %s" % (obs["status"], obs.get("detail", ""))
        if obs["request_raised"]:
            return "request-raised: getProperties raised %s" % obs["request_raised"]
        for io in obs["devices"]:
            for o in io["ops"]:
                if o["rt"]:
                    return "emitted-invalid: a message emitted by the driver is %s" % o["rt"][0]
        if obs["response_rt"]:
            return "emitted-invalid: a definition sent in reply is %s" % obs["response_rt"][0]
        resp = [e[1] for e in obs["responses"]]
        names = [dd["defn"]["name"] for dd in c["devices"]]
        for v in resp:
            if v["attrs"].get("device") not in names:
                return "foreign-device: a reply names device %r" % v["attrs"].get("device")
        for dd, io in zip(c["devices"], obs["devices"]):
            flags = expected_flags(dd["defn"], dd["ops"])
            for v in io["before"]:
                exposed, elems = flags[v["name"]]
                if bool(v["enabled"]) != exposed:
                    return "flags: property %s of %s is %s, its declarations and its own history make it %s" % (
                        v["name"], dd["defn"]["name"], "exposed" if v["enabled"] else "hidden", "exposed" if exposed else "hidden")
                if [bool(e["enabled"]) for e in v["elements"]] != elems:
                    return "flags: elements of %s.%s enabled %s, its declarations and its own history give %s" % (
                        dd["defn"]["name"], v["name"], [bool(e["enabled"]) for e in v["elements"]], elems)
            mine = [v for v in resp if v["attrs"].get("device") == dd["defn"]["name"]]
            defs = [v for v in mine if v["kind"].startswith("def")]
            if not self.addressed(c, dd):
                if mine:
                    return "not-addressed: device %s replied to a request for %r" % (dd["defn"]["name"], c["request"]["device"])
                continue
            exp = expected_defs(io["before"], c["request"]["name"])
            if [d["attrs"].get("name") for d in defs] != [v["name"] for v in exp]:
                return "wrong-definitions: request name=%r elicited definitions of %s, enabled properties asked for are %s" % (
                    c["request"]["name"], [d["attrs"].get("name") for d in defs], [v["name"] for v in exp])
            for d, v in zip(defs, exp):
                why = check_def(d, v, dd["defn"]["name"])
                if why:
                    return "definition-content: %s of %s: %s" % (d["kind"], v["name"], why)
        return None

    def nontrivial(self, c, obs):
        if obs.get("status") == "ok" and any(e[1]["kind"].startswith("def") for e in obs["responses"]):
            return core.sha(c)
        return None

    def histogram(self, cases, obs):
        h = {"devices": sum(len(c["devices"]) for c in cases), "history_ops": sum(len(d["ops"]) for c in cases for d in c["devices"])}
        for c in cases:
            k = "request:device=%s/name=%s" % ("named" if c["request"]["device"] not in (None, "UNKNOWN") else c["request"]["device"],
                                               "given" if c["request"]["name"] not in (None, "", "NOPE") else repr(c["request"]["name"]))
            h[k] = h.get(k, 0) + 1
        h["definitions_checked"] = sum(1 for o in obs if o.get("status") == "ok" for e in o["responses"] if e[1]["kind"].startswith("def"))
        return h

    def sample(self, c, obs):
        return {"request": c["request"], "devices": [d["defn"]["name"] for d in c["devices"]],
                "history": c["devices"][0]["ops"][:3], "replies": [e[1]["kind"] + ":" + str(e[1]["attrs"].get("name")) for e in obs.get("responses", [])][:8]}


PROP = C07()
