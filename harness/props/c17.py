import itertools
from collections import Counter

from harness import core, msggen
from harness.props.c16 import model_event, matches

VALS = ["v0", "hit", "x", "hit2", "w0"]
STATES = ["Ok", "Busy", "Alert", "Idle"]


def text_def(dev, vec, state="Ok"):
    return {"kind": "defTextVector", "attrs": {"device": dev, "name": vec, "state": state, "perm": "rw"}, "value": None,
            "children": [{"kind": "defText", "attrs": {"name": "a"}, "value": "v0"}, {"kind": "defText", "attrs": {"name": "b"}, "value": "w0"}]}


def switch_def(dev, vec):
    return {"kind": "defSwitchVector", "attrs": {"device": dev, "name": vec, "state": "Idle", "perm": "rw", "rule": "AnyOfMany"}, "value": None,
            "children": [{"kind": "defSwitch", "attrs": {"name": "a"}, "value": "Off"}, {"kind": "defSwitch", "attrs": {"name": "b"}, "value": "Off"}]}


DEFS = [text_def("D", "T"), switch_def("D", "S"), text_def("E", "T", "Idle")]


def gen_msg(rng):
    dev, vec = rng.choice([("D", "T"), ("D", "T"), ("D", "T"), ("D", "S"), ("E", "T")])
    if vec == "S":
        ch = [{"kind": "oneSwitch", "attrs": {"name": n}, "value": rng.choice(["On", "Off"])} for n in ("a", "b") if rng.random() < 0.7]
        return {"kind": "setSwitchVector", "attrs": {"device": dev, "name": vec, "state": rng.choice(STATES)}, "value": None, "children": ch}
    if rng.random() < 0.06:
        return text_def(dev, vec, rng.choice(STATES))          # a re-definition: definition, state and value events
    ch = [{"kind": "oneText", "attrs": {"name": n}, "value": rng.choice(VALS)} for n in ("a", "b") if rng.random() < 0.7]
    return {"kind": "setTextVector", "attrs": {"device": dev, "name": vec, "state": rng.choice(["Ok", "Ok", "Busy", "Alert"])}, "value": None, "children": ch}


def o(x):
    return [] if x is None else [x]


def wspec_sx(w):
    kind, val = w["cond"]
    cond = [kind, ["r", [val]]] if kind != "check" else ["check", [["r", [v]] for v in val]]
    return [[w["id"], o(w["dev"]), o(w["vec"]), o(w["elem"]), w["type"]], cond, o(w["timeout"]), o(w["poll"])]


def deadline(w, start):
    return start + w["timeout"] if w["timeout"] else None


def tie_instants(c, w, start):
    """instants at which more than one of {scripted messages, w's poll tick, w's timeout} is due"""
    n = len(c["instants"])
    ticks = set()
    if w["poll"]:
        t = start + w["poll"][0]
        while t < n:
            ticks.add(t)
            t += w["poll"][1]
    out = {}
    for t in range(start, n):
        actors = []
        if any(it[0] == "msg" for it in c["instants"][t]):
            actors.append("ext")
        if t in ticks:
            actors.append("poll")
        if deadline(w, start) == t:
            actors.append("timeout")
        if len(actors) > 1:
            out[t] = actors
    return out


def model_sched(c, orders=None):
    """orders: {instant: [(actor, wait id)...]} explicit order of what is due; default: messages, then flush"""
    sched = []
    for t, batch in enumerate(c["instants"]):
        msgs = [["msg", msggen.sx_msg(it[1])] for it in batch if it[0] == "msg"]
        starts = [["start", wspec_sx(it[1])] for it in batch if it[0] == "start"]
        if orders and t in orders:
            items = []
            for actor, wid in orders[t]:
                if actor == "ext":
                    items += msgs
                else:
                    items.append([actor, wid])
            if not any(a == "ext" for a, _ in orders[t]):
                items += msgs
            sched.append(items + starts)
        else:
            sched.append(msgs + starts)
    return [[msggen.sx_msg(d) for d in c["defs"]], sched]


def model_wait(mw):
    wid, start, done, polls, reg = mw
    if done:
        t, out = done[0]
        outcome = ["event", model_event(out[1])] if out[0] == "event" else [out[0]]
    else:
        t, outcome = None, None
    return {"start": start, "done": t, "outcome": outcome, "polls": polls, "reg": bool(reg)}


def impl_wait(c, obs, w):
    r = obs["results"].get(str(w["id"]))
    if r is None:
        return None
    polls = [p[0] for p in obs["polls"] if p[1] == w["dev"] and p[2] == w["vec"]]
    return {"start": r["start"], "done": r["done"], "outcome": r["outcome"], "polls": polls, "reg": r["done"] is None}


class C17(core.Prop):
    id = "C17"
    prop_file = "C17.v"
    impl_module = "c17"
    entry = "wait"
    correspondence = ("BaseClient.waitforevent (1-3 concurrent waits) on a virtual-clock asyncio loop vs the wait model, per wait: outcome, completion "
                      "instant, getProperties instants, callback registration; where several things are due in one instant the real order is one of "
                      "the orders the model admits (all are enumerated)")
    rule = ("scripts over a grid of 14-20 instants: message batches (value, state and definition events on three vectors of two devices, matching "
            "and non-matching) at every grid point incl. the timeout instant x 1-3 concurrent waits started at different instants x condition "
            "{expect, initial, check} on {value, state} x filters x timeout {none, 0, 1..10} x polling {off, delay 1-4 / interval 1-4}; "
            "non-trivial = some wait completes; distinct by script")
    assumptions = ["polling interval > 0 (an interval of 0 makes the real poller spin; the model refuses such a wait)",
                   "waits are started after the messages of their instant (a task created in a batch first runs after the batch)"]
    per_case_timeout = 10

    def gen(self, rng, tier):
        cases = []
        for _ in range(400 if tier == "quick" else 6000):
            n = rng.randint(14, 20)
            instants = [[] for _ in range(n)]
            for t in range(n - 2):
                if rng.random() < 0.4:
                    instants[t] = [["msg", gen_msg(rng)] for _ in range(rng.choice([1, 1, 2, 3]))]
            pool = [("D", "T"), ("D", None), (None, None), ("E", "T"), ("D", "S"), (None, "T")]
            if rng.random() < 0.3:      # several waits on the same property: each polls on its own schedule
                pairs = [rng.choice(pool[:2])] * rng.randint(2, 3)
            else:
                pairs = rng.sample(pool, rng.randint(1, 3))
            for i, (dev, vec) in enumerate(pairs):
                kind = rng.choice(["expect", "initial", "check"])
                target = rng.choice(["value", "value", "state"])
                if kind == "check":
                    val = rng.sample(VALS + STATES + ["On"], rng.randint(1, 3))
                elif target == "state":
                    val = rng.choice(STATES)
                else:
                    val = rng.choice(VALS + ["On", "Off"])
                w = {"id": i + 1, "dev": dev, "vec": vec, "elem": rng.choice([None, "a", "a", "b"]) if target == "value" else None,
                     "type": rng.choice([target, target, "any"]), "cond": [kind, val],
                     "timeout": rng.choice([None, None, 0, 1, 2, 3, 4, 5, 6, 8, 10]),
                     "poll": rng.choice([None, [rng.randint(1, 4), rng.randint(1, 4)], [rng.randint(1, 4), rng.randint(1, 4)]])}
                instants[rng.randint(0, 4)].append(["start", w])
            cases.append({"defs": DEFS, "instants": instants})
        return cases

    def model_input(self, c):
        return model_sched(c)

    def waits(self, c):
        return [(t, it[1]) for t, b in enumerate(c["instants"]) for it in b if it[0] == "start"]

    def shared(self, c):
        """ids of waits whose (device, vector) another wait of the script has too: their getProperties cannot be told apart"""
        keys = [(w["dev"], w["vec"]) for _, w in self.waits(c)]
        return {w["id"] for _, w in self.waits(c) if keys.count((w["dev"], w["vec"])) > 1}

    def compare(self, c, obs, mout):
        if obs["status"] != "ok":
            return "implementation %s %s" % (obs["status"], obs.get("detail", ""))
        if not isinstance(mout, list):
            return "model rejected the input"
        shared = self.shared(c)

        def view(d, wid):        # polls of waits that share their property are compared as a group below
            if d is not None and wid in shared:
                d = dict(d, polls=None)
            return d
        base = {mw[0]: view(model_wait(mw), mw[0]) for mw in mout[0]}
        for start, w in self.waits(c):
            got = view(impl_wait(c, obs, w), w["id"])
            if got is None:
                return "wait %d never ran" % w["id"]
            if got == base.get(w["id"]):
                continue
            ties = tie_instants(c, w, start)
            # only the order at the instant in which the lock is set can matter, so one order of (messages, poll tick,
            # timeout) applied to every tied instant covers every admissible schedule for this wait
            inputs = [model_sched(c, {t: [(a, w["id"]) for a in perm if a in acts] for t, acts in ties.items()})
                      for perm in itertools.permutations(("ext", "poll", "timeout"))]
            outs, err = core.run_model("wait", inputs) if inputs else ([], None)
            if err:
                return "model runner failed: %s" % err
            if not any(isinstance(m, list) and {mw[0]: view(model_wait(mw), mw[0]) for mw in m[0]}.get(w["id"]) == got for m in outs):
                return "wait %d: implementation %s; model (messages before timers) %s; no admissible order of the %d tied instants gives the implementation's result" % (
                    w["id"], str(got)[:300], str(base.get(w["id"]))[:300], len(ties))
        return None

    def oracle(self, c, obs):
        """model-free: the first event (of those the client actually raised) that the wait accepts decides"""
        if obs["status"] != "ok":
            return "crashed: %s %s" % (obs["status"], obs.get("detail", ""))
        n = len(c["instants"])
        shared, groups = self.shared(c), {}
        for start, w in self.waits(c):
            got = impl_wait(c, obs, w)
            if got is None:
                return "never-ran: wait %d" % w["id"]
            if got["outcome"] and got["outcome"][0] == "raised":
                return "raised: wait %d raised %s" % (w["id"], got["outcome"][1])
            kind, val = w["cond"]

            def hit(ev):
                if not matches(w, ev):
                    return False
                new = ev[5][1] if ev[0] == "value" else ev[4] if ev[0] == "state" else None
                if ev[0] == "def":
                    return False
                return new == val if kind == "expect" else new != val if kind == "initial" else new in val
            dl = deadline(w, start)
            # events of the start instant raised before the wait began are not seen by it: starts come last in a batch
            cands = [(t, ev) for t, ev in obs["events"] if t > start and hit(ev)]
            first = cands[0] if cands else None
            what = "wait %d (%s %s, timeout %s)" % (w["id"], kind, val, w["timeout"])
            if first and (dl is None or first[0] < dl):
                want = {"done": first[0], "outcome": ["event", first[1]]}
            elif first and first[0] == dl:
                want = None          # a tie with the timeout instant: either is right
                if got["done"] != dl or got["outcome"] not in (["timeout"], ["event", first[1]]):
                    return "tie-wrong: %s at the timeout instant gave %s at %s" % (what, got["outcome"], got["done"])
            elif dl is not None and dl < n:
                want = {"done": dl, "outcome": ["timeout"]}
            else:
                want = {"done": None, "outcome": None}
            if want is not None:
                if got["outcome"] != want["outcome"]:
                    k = "wrong-event" if (got["outcome"] or [""])[0] == "event" and (want["outcome"] or [""])[0] == "event" else "wrong-outcome"
                    return "%s: %s returned %s, expected %s" % (k, what, str(got["outcome"])[:160], str(want["outcome"])[:160])
                if got["done"] != want["done"]:
                    return "wrong-instant: %s completed at %s, expected %s" % (what, got["done"], want["done"])
            end = got["done"] if got["done"] is not None else n
            if w["id"] in shared:
                # waits on one property: the requests seen are those of all of them together, each on its own schedule
                g = groups.setdefault((w["dev"], w["vec"]), {"must": [], "may": [], "seen": got["polls"], "who": []})
                g["who"].append(what)
                if w["poll"]:
                    t = start + w["poll"][0]
                    while t < n:
                        if t < end:
                            g["must"].append(t)
                        if t <= end:
                            g["may"].append(t)
                        t += w["poll"][1]
            elif w["poll"]:
                ticks, t = [], start + w["poll"][0]
                while t < n:
                    ticks.append(t)
                    t += w["poll"][1]
                must = [t for t in ticks if t < end]
                may = [t for t in ticks if t <= end]
                if got["polls"][:len(must)] != must or any(p not in may for p in got["polls"]) or len(got["polls"]) > len(may):
                    return "polling-wrong: %s completed at %s polled at %s, ticks %s" % (what, got["done"], got["polls"], ticks[:8])
            elif got["polls"]:
                return "polled-while-off: %s" % what
        for key, g in groups.items():
            seen, must, may = Counter(g["seen"]), Counter(g["must"]), Counter(g["may"])
            if must - seen or seen - may:
                return "polling-wrong: waits on %s (%s) polled at %s; due before completion %s, due up to completion %s" % (
                    key, "; ".join(g["who"]), sorted(g["seen"]), sorted(g["must"]), sorted(g["may"]))
        # registration: after every instant exactly the waits that have begun and not completed hold a callback
        ws = [(s, impl_wait(c, obs, w)) for s, w in self.waits(c)]
        for t, count in obs["snaps"]:
            want = sum(1 for s, g in ws if s <= t and (g["done"] is None or g["done"] > t))
            if count != want:
                return "callback-left: after instant %s %d temporary callbacks are registered, %d waits are pending" % (t, count, want)
        if obs["left"] != sum(1 for s, g in ws if g["done"] is None):
            return "callback-left: %d callbacks registered at the end" % obs["left"]
        return None

    def nontrivial(self, c, obs):
        if any(r["done"] is not None for r in obs["results"].values()):
            return core.sha(c["instants"])
        return None

    def histogram(self, cases, obs):
        h = {"event": 0, "timeout": 0, "pending": 0, "tie-with-timeout": 0, "waits": 0}
        for c, ob in zip(cases, obs):
            if ob.get("status") != "ok":
                continue
            for r in ob["results"].values():
                h["waits"] += 1
                k = "pending" if r["outcome"] is None else r["outcome"][0]
                h[k] = h.get(k, 0) + 1
        return h

    def sample(self, c, obs):
        return {"waits": [w for _, w in self.waits(c)], "results": obs.get("results")}


PROP = C17()
