from harness import core, msggen, xmlgen

ALPHA = (["a", "b", "Z", "0", "9", " ", " ", "x y", "<", ">", "&", '"', "'", "&amp;", "]]>", "\n", "\t",
          "é", "ÿ", " ", " ", "€", "Ω", "中", "퟿", "", "�",
          "\U00010000", "\U0001F52D", "\U0010FFFF", "=", "/", "--", "<!--", "?>", "#", ";", "%"])


def rnd_text(rng, lo=0, hi=8):
    s = "".join(rng.choice(ALPHA) for _ in range(rng.randint(lo, hi)))
    return s


def clean_text(rng):
    s = rnd_text(rng).strip()       # text is trimmed by the parser: keep what survives
    return s


def rich_message(rng, kind):
    m = msggen.gen_message(rng, kind, max_children=8)
    for k in list(m["attrs"]):
        if k in ("device", "name", "label", "group", "message", "timestamp", "uid", "version", "timeout"):
            if rng.random() < 0.6:
                m["attrs"][k] = rnd_text(rng, 1, 6)
            elif k in ("label", "group", "message", "timestamp") and rng.random() < 0.3:
                m["attrs"][k] = ""        # present and empty is not the same as absent
    for p in m["children"] or []:
        dom = msggen.PARTS[p["kind"]][2]
        if rng.random() < 0.6:
            p["attrs"]["name"] = rnd_text(rng, 1, 5)
        if "label" in p["attrs"]:
            p["attrs"]["label"] = rnd_text(rng, 0, 5)
        if "format" in p["attrs"] and rng.random() < 0.5:
            p["attrs"]["format"] = rnd_text(rng, 0, 4)
        if dom == "text":
            p["value"] = rng.choice([clean_text(rng), clean_text(rng), "", None])
        if dom == "none" and rng.random() < 0.3:
            p["value"] = clean_text(rng)
    return m


def view(m):
    n = msggen.norm(m)
    return {"kind": n["kind"], "attrs": {k: v for k, v in n["attrs"].items() if v is not None}, "value": n["value"],
            "children": None if n["children"] is None else
            [{"kind": p["kind"], "attrs": {k: v for k, v in p["attrs"].items() if v is not None}, "value": p["value"]}
             for p in n["children"]]}


def view_of_model(mm):
    if not mm:
        return None
    kind, attrs, value, children = mm[0]
    return {"kind": kind, "attrs": {k: v for k, v in attrs}, "value": value[0] if value else None,
            "children": None if not children else [
                {"kind": p[0], "attrs": {k: v for k, v in p[1]}, "value": p[2][0] if p[2] else None} for p in children[0]]}


FRAG = ["<", "</", ">", "/>", " ", "\n", "\t", "\r", "\r\n", "=", "'", '"', "&amp;", "&lt;", "&gt;", "&quot;", "&apos;",
        "&#65;", "&#x41;", "&#0;", "&#xD800;", "&#1114111;", "&#1114112;", "&foo;", "&", "&#;", "&#x;", "]]>", "]]", "]",
        "a", "b", "é", "\x00", "\x01", "\x7f", "\x85", "\xa0", "ÿ", "·", "-", ".", "1", ":", "xmlns", "<!--", "-->",
        "<?", "?>", "<![CDATA[", "<!DOCTYPE a>", "getProperties", "oneText", "name"]


def soup(rng, base):
    r = rng.random()
    if r < 0.35:
        return base
    if r < 0.85:
        s = list(base)
        for _ in range(rng.randint(1, 3)):
            op, i = rng.random(), rng.randrange(len(s) + 1)
            if op < 0.4 and s:
                del s[min(i, len(s) - 1)]
            elif op < 0.8:
                s.insert(i, rng.choice(FRAG))
            else:
                s = s[:i]
        return "".join(s)
    return "".join(rng.choice(FRAG) for _ in range(rng.randint(1, 12)))


class C03(core.Prop):
    id = "C03"
    prop_file = "C03.v"
    impl_module = "c03"
    entry = "codec"
    correspondence = ("to_string/from_string vs Msg.Codec (model parser on the implementation's bytes, implementation parser on the model's bytes "
                      "and on foreign spellings); ElementTree.fromstring vs Xml.Lex on valid, mutated and junk documents")
    uses_registry = True
    rule = ("messages: every kind x random subsets of optional attributes x 0-8 children x text/attribute values over a weighted alphabet "
            "(markup characters, both quotes, Latin-1, BMP edge points, astral points, inner whitespace and newlines), each with the implementation's "
            "serialisation, the model's serialisation and 3 foreign spellings (attribute order, quote style, self-closing style, indentation, "
            "declaration); xml: valid spellings, 1-3 point mutations of them and fragment soup incl. all Latin-1 code points in name/text/attribute "
            "position; non-trivial = message with a non-ASCII or markup character or a child, or an xml case the parser must reject; distinct by content")
    assumptions = ["text values exclude carriage return and leading/trailing whitespace (the normalisation the property allows)",
                   "documents that reach the model's Unsupported state (<!, <?, ':' or xmlns in names, non-Latin-1 name characters) are counted and skipped"]

    def gen(self, rng, tier):
        cases = []
        rounds = 15 if tier == "quick" else 600
        msgs = []
        for _ in range(rounds):
            for kind in sorted(msggen.GRAMMAR):
                msgs.append(rich_message(rng, kind))
            # the registry also holds a stand-alone oneLight message (same tag as the part of that name)
            msgs.append({"kind": "oneLight", "attrs": {"name": rng.choice(msggen.NAMES)}, "value": rng.choice(msggen.STATES), "children": None})
        # long child texts (around and beyond 4 KiB), to be spelled with the text on a line of its own as well
        for n in ([100, 4090, 4097, 5000] if tier == "quick" else [100, 1000, 4000, 4090, 4095, 4096, 4097, 4100, 5000, 9000, 12000]):
            for kind in ("setTextVector", "newTextVector", "defTextVector", "setBLOBVector"):
                m = rich_message(rng, kind)
                child = msggen.GRAMMAR[kind][3]
                p = msggen.gen_part(rng, child)
                p["value"] = ("QUJD" * (n // 4 + 1))[:n - n % 4] if child == "oneBLOB" else ("lorem ipsum " * (n // 12 + 1))[:n].strip()
                m["children"] = [p] + (m["children"] or [])[:1]
                m["_long"] = True
                msgs.append(m)
        # the model's own serialisation of every message (implementation must read it back)
        mdocs, err = core.run_model("tostring", [msggen.sx_msg(m) for m in msgs])
        for m, md in zip(msgs, mdocs or [None] * len(msgs)):
            t = xmlgen.msg_tree(m)
            foreign = [xmlgen.document(rng, t, st) for st in xmlgen.STYLES[1:]]
            if m.pop("_long", False):
                foreign.append(xmlgen.document(rng, t, {"quote": '"', "selfclose": "space", "padtext": True}))
            cases.append({"type": "msg", "msg": m, "model_doc": md[0] if isinstance(md, list) else None, "foreign": foreign})
        n_xml = 2500 if tier == "quick" else 100000
        for i in range(n_xml):
            m = msggen.gen_message(rng, max_children=2)
            base = xmlgen.document(rng, xmlgen.msg_tree(m), rng.choice(xmlgen.STYLES), decl="")
            cases.append({"type": "xml", "doc": soup(rng, base)})
        for cp in range(256):   # Latin-1 sweep in name, text and attribute position
            ch = chr(cp)
            for doc in ("<a%s/>" % ch, "<%s/>" % ch, "<a>%s</a>" % ch, '<a b="%s"/>' % ch, "<a %s='1'/>" % ch):
                cases.append({"type": "xml", "doc": doc})
        return cases

    def repass(self, cases):
        # every message case again in one process: parsing one kind must not depend on which kinds were parsed before
        return [i for i, c in enumerate(cases) if c["type"] == "msg"]

    def model_input2(self, c, obs):
        if c["type"] == "xml":
            return ["xml", c["doc"]]
        return ["msg", ordered_sx(c["msg"], obs), obs.get("doc", ""), list(c["foreign"])]

    def compare(self, c, obs, mout):
        if obs["status"] != "ok":
            return "implementation %s: %s" % (obs["status"], obs.get("detail"))
        if not isinstance(mout, list):
            return "model rejected input: %r" % (mout,)
        if c["type"] == "xml":
            st = mout[0]
            if st == 2:
                return None          # Unsupported construct: outside the model
            if st == 0 and obs["xml"] == 0:
                mt = mout[1][0]
                if norm_tree(mt) != norm_tree(obs["tree"]):
                    return "xml tree differs on %r: expat %s model %s" % (c["doc"][:60], obs["tree"], mt)
                return None
            if st in (1, 3) and obs["xml"] == 1:
                return None
            return "xml well-formedness differs on %r: expat %s, model status %s" % (c["doc"][:80], "ok" if obs["xml"] == 0 else obs.get("error"), st)
        exp = view(c["msg"])
        wf, mnorm, mparse_impl, mforeign, mself, mre, printable = mout
        if not wf:
            return "model does not consider the generated message constructible (wfb false): %s" % c["msg"]["kind"]
        if not printable:
            # the hypothesis of string_roundtrip: names are XML names, characters are characters XML can carry, no CR in text
            return "the generated message is outside the domain of the string-level theorem (printable false): %s" % c["msg"]["kind"]
        if view_of_model([mnorm]) != exp:
            return "model normal form differs from the expected view"
        if view_of_model(mparse_impl) != exp:
            return "model parser on the implementation's bytes gives %s, expected %s" % (view_of_model(mparse_impl), exp)
        if obs["from_model_doc"] != exp:
            return "implementation parser on the model's bytes gives %s, expected %s" % (obs["from_model_doc"], exp)
        if view_of_model(mself) != exp or not mre:
            return "model round trip through its own XML layer fails"
        for k, (iv, mv) in enumerate(zip(obs["from_foreign"], mforeign)):
            if view_of_model(mv) != iv:
                return "foreign spelling %d: implementation %s, model %s" % (k, iv, view_of_model(mv))
        return None

    def oracle(self, c, obs):
        if obs["status"] != "ok":
            return "crashed: %s %s" % (obs["status"], obs.get("detail", ""))
        if c["type"] == "xml":
            return None
        exp = view(c["msg"])
        kind = c["msg"]["kind"]
        if obs["reparsed"] != exp:
            return "roundtrip: from_string(to_string(m)) of a %s gives %s, expected %s" % (kind, obs["reparsed"], exp)
        if not obs["rebytes_equal"]:
            return "reserialise: serialising the parsed %s again gives different bytes" % kind
        for k, iv in enumerate(obs["from_foreign"]):
            if iv != exp:
                return "foreign-spelling: %s in spelling %d parses to %s, expected %s" % (kind, k + 1, iv, exp)
        return None

    def nontrivial(self, c, obs):
        if c["type"] == "xml":
            return core.sha(c["doc"]) if obs.get("xml") == 1 else None
        txt = repr(c["msg"])
        if c["msg"]["children"] or any(ord(ch) > 127 for ch in txt) or any(ch in txt for ch in "<>&"):
            return core.sha(c["msg"])
        return None

    def histogram(self, cases, obs):
        h = {"messages": 0, "xml_ok": 0, "xml_rejected": 0}
        for c, o in zip(cases, obs):
            if c["type"] == "msg":
                h["messages"] += 1
                h["kind:" + c["msg"]["kind"]] = h.get("kind:" + c["msg"]["kind"], 0) + 1
            elif o.get("xml") == 0:
                h["xml_ok"] += 1
            else:
                h["xml_rejected"] += 1
        return h

    def sample(self, c, obs):
        if c["type"] == "xml":
            return {"xml": c["doc"][:120], "expat": obs.get("xml")}
        return {"message": c["msg"], "bytes": obs.get("doc", "")[:200]}


def ordered_sx(m, obs):
    """the message with its attributes in the real object's __dict__ order (what the model's ma/pa stand for)"""
    def ordered(attrs, order):
        pos = {k: i for i, k in enumerate(order)}
        return [[k, v] for k, v in sorted(attrs.items(), key=lambda kv: pos.get(kv[0], 99)) if v is not None]
    x = msggen.sx_msg(m)
    x[1] = ordered(m["attrs"], obs.get("order", []))
    if m["children"] is not None:
        co = obs.get("child_order", [])
        x[3] = [[[p["kind"], ordered(p["attrs"], co[i] if i < len(co) else []), [] if p["value"] is None else [p["value"]]]
                 for i, p in enumerate(m["children"])]]
    return x


def norm_tree(t):
    return [t[0], sorted([list(a) for a in t[1]]), t[2], [norm_tree(k) for k in t[3]]]


PROP = C03()
