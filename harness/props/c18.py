from harness import core, msggen

FAULTS = ["eof", "read-error", "eof-in-message", "junk-then-eof", "handler-exception"]
ENABLE = '<enableBLOB device="CAM">%s</enableBLOB>'
GETP = '<getProperties version="1.7"/>'
ECHO = '<newTextVector device="CAM" name="ECHO"><oneText name="t">x</oneText></newTextVector>'
WRITE = '<newTextVector device="CAM" name="T"><oneText name="t">hello</oneText></newTextVector>'


def rmsg(fc, fd, en=None, blob=False, dev=None):
    return [fc, fd, [] if en is None else [en], blob, [] if dev is None else [dev]]


def is_fault(st):
    return st[0] == "fault" or (st[0] == "burst" and any(x[0] == "fault" for x in st[1]))


def echoes(st):
    """plain device updates the device sends in answer during this step"""
    if st[0] == "burst":
        return sum(echoes(x) for x in st[1])
    return 1 if (st[0] == "peer" and "ECHO" in st[2]) or (st[0] == "fault" and st[2] == "echo-raise") else 0


def write_failed(c):
    """the connection whose writes fail in this script (what it has 'received' is not counted)"""
    for st in c["script"]:
        if st[0] == "writefail":
            return st[1]
    return None


class C18(core.Prop):
    id = "C18"
    prop_file = "C18.v"
    impl_module = "c18"
    entry = "router"
    correspondence = ("real TCP and TTY connection handlers on fake streams inside a running loop, faults injected at every step of a session "
                      "script, vs the router model driven by the lifecycle translation (open = register, message = send, any ending = unregister)")
    rule = ("session scripts of 2-3 connections (handshake, enableBLOB Also/Only/Never, writes, device traffic incl. BLOB updates) x fault kind "
            "{EOF, read error, EOF inside a message, junk then EOF, handler exception, write error on a peer, write error on the connection itself before it ends, the last request and the end of stream arriving together while the device answers the others, the device answering and then failing} injected at every step index x "
            "victim transport {TCP, TTY}, followed by device traffic and a reconnect; non-trivial = script with a fault; distinct by script")
    assumptions = ["one TTY connection per script at most (the TTY server has a single channel)",
                   "a write error on a peer does not by itself end that peer's connection; it ends when its reader does"]
    per_case_timeout = 10

    def gen(self, rng, tier):
        cases = []
        for victim_kind in ("tcp", "tty"):
            for fault in FAULTS + ["peer-write-error", "own-write-error", "answer-then-eof", "answer-then-raise"]:
                base = [["open", 1, victim_kind], ["open", 2, "tcp"], ["peer", 1, GETP], ["peer", 2, GETP],
                        ["peer", 1, ENABLE % rng.choice(["Also", "Only"])], ["peer", 2, ENABLE % "Also"], ["dev", False],
                        ["peer", 1, WRITE], ["dev", True], ["open", 3, "tcp"], ["peer", 3, ENABLE % "Only"], ["dev", True], ["dev", False]]
                positions = range(2, len(base) + 1) if tier == "thorough" else sorted(rng.sample(range(2, len(base) + 1), 5))
                for pos in positions:
                    script = list(base[:pos])
                    if fault == "peer-write-error":
                        script += [["writefail", 2], ["dev", False], ["fault", 1, "eof"]]
                    elif fault == "own-write-error":
                        # a write to the connection fails first; it ends (by end of stream) afterwards
                        script += [["writefail", 1], ["dev", False], ["dev", False], ["dev", True], ["fault", 1, "eof"]]
                    elif fault == "answer-then-eof":
                        # the last request and the end of the stream arrive together: the device's answer to the others is under way
                        # when the connection is closed
                        script += [["burst", [["peer", 1, ECHO], ["fault", 1, "eof"]]]]
                    elif fault == "answer-then-raise":
                        script += [["fault", 1, "echo-raise"]]
                    else:
                        script += [["fault", 1, fault]]
                    script += base[pos:] + [["dev", False], ["dev", True], ["open", 4, "tcp"], ["dev", True], ["dev", False]]
                    script = [s for s in script if not (s[0] == "peer" and s[1] == 1 and script.index(s) > pos)]
                    cases.append({"script": script, "fault": fault, "victim": victim_kind, "at": pos})
        return cases

    def model_ops(self, c):
        """per script step the list of router operations it amounts to (the first entry registers the device)"""
        ended = set()

        def one(st):
            if st[0] == "burst":
                return [o for x in st[1] for o in one(x)]
            if st[0] == "open":
                return [["regcl", st[1]]]
            if st[0] == "peer":
                if st[1] in ended:
                    return []
                t = st[2]
                if "enableBLOB" in t:
                    return [["send", [st[1]], rmsg(True, False, t.split(">")[1].split("<")[0], False, "CAM")]]
                if "getProperties" in t:
                    return [["send", [st[1]], rmsg(True, True)]]
                ops = [["send", [st[1]], rmsg(True, False, None, False, "CAM")]]
                if "ECHO" in t:
                    ops.append(["send", [100], rmsg(False, True, None, False, "CAM")])
                return ops
            if st[0] == "dev":
                return [["send", [100], rmsg(False, True, None, bool(st[1]), "CAM")]]
            if st[0] == "fault":
                ops = []
                if st[2] == "echo-raise":
                    ops = [["send", [st[1]], rmsg(True, False, None, False, "CAM")], ["send", [100], rmsg(False, True, None, False, "CAM")]]
                ended.add(st[1])
                return ops + [["unreg", st[1]]]
            return []
        return [[["regdev", 100, []]]] + [one(st) for st in c["script"]]

    def model_input(self, c):
        return [o for step in self.model_ops(c) for o in step]

    def compare(self, c, obs, mout):
        if obs["status"] != "ok":
            return "implementation %s %s" % (obs["status"], obs.get("detail", ""))
        if not isinstance(mout, list):
            return "model rejected input"
        ops = self.model_ops(c)
        k = 0      # index into model outputs (mout[0] belongs to the regdev)
        counts = {}
        prev = {}
        for i, (st, o) in enumerate(zip(c["script"], ops[1:])):
            step = obs["steps"][i]
            for _ in o:
                k += 1
                outs = mout[k]
                for x in outs:
                    if x[0] == "c":
                        counts[x[1]] = counts.get(x[1], 0) + 1
            got = {int(cid): n for cid, n in step["received"].items()}
            for cid in got:
                if cid == write_failed(c):
                    continue
                if got[cid] != counts.get(cid, 0):
                    return "after step %d %s: connection %d has received %d messages, model %d" % (i, st, cid, got[cid], counts.get(cid, 0))
        fin = mout[-1]
        last = obs["steps"][-1]
        if sorted(fin[0]) != last["clients"] or sorted(fin[1]) != last["rows"]:
            return "final router state: impl clients %s rows %s, model %s %s" % (last["clients"], last["rows"], fin[0], fin[1])
        return None

    def oracle(self, c, obs):
        if obs["status"] != "ok":
            return "crashed: %s %s" % (obs["status"], obs.get("detail", ""))
        fi = next(i for i, s in enumerate(c["script"]) if is_fault(s))
        after = obs["steps"][fi]
        what = "%s on a %s connection at step %d" % (c["fault"], c["victim"], c["at"])
        if 1 in after["clients"]:
            return "still-registered: after %s the router still lists the connection" % what
        if 1 in after["rows"]:
            return "settings-kept: after %s the router still holds the connection's BLOB settings" % what
        if c["victim"] == "tcp" and not after["closed"]["1"]:
            return "not-closed: after %s the server did not close the connection" % what
        if not after["done"]["1"]:
            return "handler-running: after %s the connection's handler has not finished" % what
        base = after["received"]["1"]
        # what the device sent in answer while the connection was ending reaches every other connection that takes plain traffic
        if echoes(c["script"][fi]) and fi > 0:
            before = obs["steps"][fi - 1]
            for cid in {s[1] for s in c["script"][:fi] if s[0] == "open" and s[1] not in (1, 3)}:
                if cid != write_failed(c) and after["received"][str(cid)] != before["received"][str(cid)] + echoes(c["script"][fi]):
                    return "other-not-served: connection %d did not receive the update the device sent while the %s connection was ending (%s)" % (
                        cid, c["victim"], c["fault"])
        open_ids = {2}
        rec_before = None
        # the others are served from the moment the connection's writes begin to fail, not only once it has ended
        wi = next((i for i, s in enumerate(c["script"]) if s[0] == "writefail" and s[1] == 1), None)
        if wi is not None:
            ids = {s[1] for s in c["script"][:wi] if s[0] == "open" and s[1] != 1}
            for i in range(wi + 1, fi):
                st, step = c["script"][i], obs["steps"][i]
                prev = obs["steps"][i - 1]
                if st[0] == "dev" and not st[1]:
                    for cid in ids:
                        if cid == 3:
                            continue
                        if str(cid) in prev["received"] and step["received"][str(cid)] != prev["received"][str(cid)] + 1:
                            return "other-not-served: connection %d did not receive the device update sent while writes to the failing %s connection fail" % (cid, c["victim"])
        for i in range(fi + 1, len(c["script"])):
            st, step = c["script"][i], obs["steps"][i]
            if step["received"]["1"] != base:
                return "delivery-to-dead: after %s a later message was delivered to the ended connection" % what
            if st[0] == "open":
                open_ids.add(st[1])
            for cid in open_ids:
                if cid not in step["clients"]:
                    return "other-disturbed: connection %d is no longer registered after %s" % (cid, what)
            if st[0] == "dev" and not st[1]:
                prev = obs["steps"][i - 1]
                for cid in open_ids:
                    if cid == write_failed(c):
                        continue
                    if cid == 3:
                        continue          # policy Only: no plain traffic by design
                    if str(cid) in prev["received"] and step["received"][str(cid)] != prev["received"][str(cid)] + 1:
                        return "other-not-served: connection %d did not receive the device update sent after %s" % (cid, what)
        # the reconnecting peer (4) never enabled BLOBs: it must have received no BLOB update
        if obs["steps"][-1]["blobs"].get("4", 0) != 0:
            return "reconnect-settings: a newly connected peer received BLOB updates without enabling them"
        return None

    def nontrivial(self, c, obs):
        return core.sha(c["script"])

    def histogram(self, cases, obs):
        h = {}
        for c in cases:
            k = "%s/%s" % (c["victim"], c["fault"])
            h[k] = h.get(k, 0) + 1
        return h

    def sample(self, c, obs):
        return {"fault": c["fault"], "victim": c["victim"], "at": c["at"], "script": c["script"][:8]}


PROP = C18()
