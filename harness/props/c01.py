from harness import core, drvgen, drvcmp, clientgen, sysgen

K2 = "blob-after-definition"


def eps(c):
    return [100 + i for i in range(len(c["devices"]))], [(1 + 2 * i, 2 + 2 * i) for i in range(len(c["clients"]))]


def enc_wval(kind, x):
    return ["b", bytes(x[0]), x[1]] if kind == "BLOB" else ["t", x]


def flat_ops(c):
    """(flattened operations, index of the last flattened operation of every top-level one)"""
    flat, ends = [], []
    for op in c["ops"]:
        flat += op[1] if op[0] == "burst" else [op]
        ends.append(len(flat) - 1)
    return flat, ends


def system_input(c):
    deps, ceps = eps(c)
    ops = []
    for op in flat_ops(c)[0]:
        if op[0] == "drv":
            ops.append(["drv", deps[op[1]], drvgen.enc_op(c["devices"][op[1]], op[2])])
        elif op[0] == "handshake":
            ops.append(["handshake", op[1]])
        elif op[0] == "enable":
            ops.append(["enable", op[1], op[2] == "blob", op[3], op[4]])
        else:
            defn = next(d for d in c["devices"] if d["name"] == op[2])
            kind = drvgen.all_vectors(defn)[op[3]][1]["kind"]
            ops.append(["write", op[1], op[2], op[3], [[en, enc_wval(kind, x)] for en, x in op[4]]])
    return [[[e, drvgen.enc_dev(d)] for e, d in zip(deps, c["devices"])],
            [[cl["kind"] == "net", a, b] for cl, (a, b) in zip(c["clients"], ceps)], ops]


def loosen(view, other):
    """BLOB payloads where exactly one side shows none: a definition (control connection) and an update (BLOB connection) of
    the same property published together reach the mirror in an order the two connections do not determine"""
    oth = {(d[0], v[0], e[0]): e[2] for d in other for v in d[1] if v[1] == "BLOB" for e in v[5]}
    out = []
    for d in view:
        vs = []
        for v in d[1]:
            if v[1] == "BLOB":
                es = []
                for e in v[5]:
                    o = oth.get((d[0], v[0], e[0]))
                    if o is not None and (e[2] == ["raw", None]) != (o == ["raw", None]):
                        es.append([e[0], e[1], "either"])
                    else:
                        es.append(e)
                v = v[:5] + [es]
            vs.append(v)
        out.append([d[0], vs])
    return out


def compare_system(c, obs, mout, check_clients=True, blob_order="loose"):
    if obs["status"] != "ok":
        return "implementation %s %s" % (obs["status"], obs.get("detail", ""))
    if not isinstance(mout, list):
        return "model rejected the input"
    ends = flat_ops(c)[1]
    for k, st in enumerate(obs["steps"]):
        ms = mout[ends[k]]
        if st.get("long"):
            # a message longer than the junk-recovery threshold travelled on a threshold-enabled link: the byte-level
            # outcome (known finding K1) is outside the message-level model; nothing is claimed from here on
            return None
        devs, mirrors, oof = ms
        if oof:
            return "step %d: the model ran out of fuel" % k
        if not st["settled"]:
            return "step %d %s: the implementation did not become quiet" % (k, str(st["op"])[:60])
        for di, (a, b) in enumerate(zip(st["drivers"], devs)):
            if a != drvcmp.model_state(b):
                return "step %d %s: state of device %d differs: impl %s model %s" % (k, str(st["op"])[:80], di, str(a)[:300], str(drvcmp.model_state(b))[:300])
        if check_clients:
            for ci, (a, b) in enumerate(zip(st["clients"], mirrors)):
                mm = clientgen.model_mirror(b)
                if blob_order == "loose" and a != mm:
                    a, mm = loosen(a, mm), loosen(mm, a)
                if a != mm and c["ops"][k][0] == "burst":
                    # with several operations in flight the order in which properties first appear is a matter of timing
                    a = sorted(([d[0], sorted(d[1], key=lambda v: v[0])] for d in a), key=lambda d: d[0])
                    mm = sorted(([d[0], sorted(d[1], key=lambda v: v[0])] for d in mm), key=lambda d: d[0])
                if a != mm:
                    da = {d[0]: {v[0]: v for v in d[1]} for d in a}
                    dm = {d[0]: {v[0]: v for v in d[1]} for d in mm}
                    where = next(((dn, vn) for dn in sorted(set(da) | set(dm)) for vn in sorted(set(da.get(dn, {})) | set(dm.get(dn, {})))
                                  if da.get(dn, {}).get(vn) != dm.get(dn, {}).get(vn)), "order")
                    return "step %d %s: view of client %d differs at %s: impl %s model %s" % (
                        k, str(st["op"])[:80], ci, where,
                        str(da.get(where[0], {}).get(where[1]) if where != "order" else [d[0] for d in a])[:260],
                        str(dm.get(where[0], {}).get(where[1]) if where != "order" else [d[0] for d in mm])[:260])
    return None


def gen_history(rng, devs, clients, n, writes=0.2, elem_ops=False):
    ops = [["handshake", i] for i in range(len(clients))]
    if rng.random() < 0.3:
        ops = ops[::-1]
    for _ in range(n):
        r = rng.random()
        di = rng.randrange(len(devs))
        if r < 0.9 - writes:
            op = drvgen.random_op(rng, devs[di], client=False)
            if op[0] == "client" or (op[0] == "enelem" and not elem_ops):
                continue
            ops.append(["drv", di, op])
        elif r < 0.9:
            vecs = drvgen.all_vectors(devs[di])
            vn = rng.choice(sorted(vecs))
            g, v = vecs[vn]
            on = [e for e in v["elements"] if e["enabled"]]
            if v["kind"] == "Light" or not on:
                continue
            picked = rng.sample(on, rng.randint(1, len(on)))
            ops.append(["write", rng.randrange(len(clients)), devs[di]["name"], vn,
                        [[e["name"], sysgen.write_value(rng, v["kind"])] for e in picked]])
        else:
            ops.append(["handshake", rng.randrange(len(clients))])
    return ops


class C01(core.Prop):
    id = "C01"
    prop_file = "C01.v"
    impl_module = "system"
    entry = "system"
    correspondence = ("generated drivers on the real Router with the library's network client (control + BLOB connection handlers joined to the "
                      "TCP server connection handlers by fragmenting byte pipes) and snooping clients vs the composed system model: every device's "
                      "state and every client's view after every operation")
    rule = ("deployments of 1-3 generated devices (1-3 groups, all five kinds, three switch rules, printf and sexagesimal formats, disabled "
            "groups/vectors/elements, inheritance depth 1-3) x a network client with random fragmentation of both directions {whole, 1 byte, "
            "1024, random} and optionally a snooping client x histories of 3-25 operations (assign, set_value, selected values, state, enabling "
            "of vectors and groups, client handshakes, client writes), settled after every operation; plus schedules: a client connects while the "
            "device keeps changing, with 0-40 loop iterations between the steps (judged when everything has settled); non-trivial = some client "
            "view changed; distinct by content")
    assumptions = ["the system is quiet between operations (all in-flight messages are delivered before the next one)",
                   "clients without BLOBs enabled (snooping clients) are not expected to see BLOB state or payload",
                   "elements are not enabled or disabled at run time (not among the property's operations)"]
    per_case_timeout = 30

    def gen(self, rng, tier):
        cases = []
        for k in range(140 if tier == "quick" else 4000):
            devs, clients = sysgen.gen_deployment(rng)
            cases.append({"devices": devs, "clients": clients, "ops": gen_history(rng, devs, clients, rng.randint(3, 25)), "seed": k})
        # schedules: the device keeps changing while a client connects; the loop runs a chosen number of iterations between the steps
        for k in range(200 if tier == "quick" else 4000):
            devs, clients = sysgen.gen_deployment(rng, ndev=1, kinds=["Text", "Number", "Switch"], snoop=False)
            for lv in devs[0]["levels"]:
                for g in lv["groups"]:
                    g["enabled"] = True
                    for v in g["vectors"]:
                        v["enabled"] = True
            vecs = drvgen.all_vectors(devs[0])
            vn = rng.choice(sorted(vecs))
            g, v = vecs[vn]
            i = rng.randrange(len(v["elements"]))
            ops, gaps = [["handshake", 0]], [k % 40]
            for _ in range(rng.randint(2, 3)):
                # the same element changes again and again while the client is still connecting
                ops.append(["drv", 0, ["assign", vn, i, drvgen.random_value(rng, v["kind"])]])
                gaps.append(rng.choice([0, 1, 2, 3]))
            if rng.random() < 0.4:
                op = drvgen.random_op(rng, devs[0], client=False)
                if op[0] not in ("client", "enelem"):
                    ops.append(["drv", 0, op])
                    gaps.append(0)
            cases.append({"devices": devs, "clients": clients, "ops": [["burst", ops, gaps]], "seed": 100000 + k, "race": True})
        return cases

    def model_input(self, c):
        return system_input(c)

    def compare(self, c, obs, mout):
        return compare_system(c, obs, mout)

    def oracle(self, c, obs):
        if obs["status"] != "ok":
            return "%s: %s" % (obs["status"], obs.get("detail", ""))
        found = []
        for k, st in enumerate(obs["steps"]):
            if st["raised"] and not (c["ops"][k][0] == "write" and st["raised"].startswith("KeyError")):
                found.append("raised: operation %d %s raised %s" % (k, str(c["ops"][k])[:80], st["raised"]))
            if not st["settled"]:
                found.append("not-quiet: the system never became quiet after operation %d" % k)
        shaken = set()
        for k, (op, st) in enumerate(zip(c["ops"], obs["steps"])):
            if op[0] == "handshake":
                shaken.add(op[1])
            if op[0] == "burst":
                shaken |= {o[1] for o in op[1] if o[0] == "handshake"}
            for ci in sorted(shaken):
                cl = c["clients"][ci]
                for di, d in enumerate(c["devices"]):
                    want = sysgen.visible(d, st["drivers"][di])
                    got = sysgen.client_visible(st["clients"][ci], d["name"])
                    # judge everything but BLOB payloads first, then the payloads
                    df = sysgen.diff_views(want, got, blobs=(cl["kind"] == "net"))
                    if df:
                        kind = K2 if ("None in the client's view" in df and "['blob'" in df) else "diverged"
                        if any(x.get("long") for x in obs["steps"][:k + 1]):
                            kind = "long-message"
                        found.append("%s: after operation %d %s %s client %d: device %s %s" % (kind, k, str(op)[:60], cl["kind"], ci, d["name"], df))
            if found and not all(f.startswith(K2) or f.startswith("long-message") for f in found):
                break
        for f in found:
            if not (f.startswith(K2) or f.startswith("long-message")):
                return f
        return found[0] if found else None

    def known(self, c, obs, failure):
        for key in (K2, "long-message"):
            if failure.startswith(key):
                for k in core.load_known():
                    if k.get("property") == "C01" and k.get("status") == "open" and k.get("match") == key:
                        return k["what"]
        return None

    def nontrivial(self, c, obs):
        if obs.get("status") == "ok" and any(a["clients"] != b["clients"] for a, b in zip(obs["steps"], obs["steps"][1:])):
            return core.sha([c["devices"], c["ops"]])
        return None

    def histogram(self, cases, obs):
        h = {}
        for c in cases:
            for op in flat_ops(c)[0]:
                k = op[0] if op[0] != "drv" else "drv:" + op[2][0]
                h[k] = h.get(k, 0) + 1
            if c.get("race"):
                h["connect-while-changing"] = h.get("connect-while-changing", 0) + 1
            h["clients:%d" % len(c["clients"])] = h.get("clients:%d" % len(c["clients"]), 0) + 1
            h["devices:%d" % len(c["devices"])] = h.get("devices:%d" % len(c["devices"]), 0) + 1
        return h

    def sample(self, c, obs):
        return {"devices": [d["name"] for d in c["devices"]], "clients": c["clients"], "ops": [str(o)[:100] for o in c["ops"][:12]]}


PROP = C01()
