from harness import core, msggen, bufgen


def all_views_from_substrings(text, limit=4000):
    """views of every message that parses from a contiguous piece of text (fallback genuineness check)"""
    from harness.impl import c03  # noqa
    return None


class C11(core.Prop):
    id = "C11"
    prop_file = "C11.v"
    impl_module = "buffer"
    entry = "buffer"
    correspondence = ("Buffer.append/process fed piece by piece vs Buffer.Model.feed with the parser instantiated by the table of answers "
                      "the real parsers (ElementTree.fromstring, IndiMessage.from_string) gave during the run")
    rule = ("streams over Latin-1: (A) soup of protocol fragments (known/unknown openers and closers, attributes, quotes, < > &, comments, CDATA, "
            "declarations, NUL) and random characters; (B) junk free of known-tag openers interleaved with valid messages; (C) a valid message "
            "truncated at every position followed by valid messages and filler; (D) valid messages only; x fragmentations {whole, per character, "
            "1024-blocks, random cuts} x threshold {16, 128, 2048, disabled}; non-trivial = stream with junk or truncation; distinct by (threshold, pieces)")
    assumptions = ["classes B and C state delivery expectations only for thresholds not smaller than the messages involved (a fragmented message "
                   "longer than the threshold is the recorded finding K1 of C08)",
                   "with the threshold disabled only termination, no-raise and genuineness are expected after a corrupt element (a BLOB link waits by design)"]
    per_case_timeout = 8

    def gen(self, rng, tier):
        cases = []
        n = 1 if tier == "quick" else 12

        def add(label, text, thr, how, expect=None, late=None):
            cases.append({"label": label, "thr": thr, "pieces": bufgen.cuts(rng, text, how), "expect": expect, "late": late})

        for _ in range(500 * n):    # A
            text = bufgen.junk(rng, rng.randint(1, 60), False)
            if rng.random() < 0.5:
                text += bufgen.spelling(rng, bufgen.valid_message(rng, short=True)) + bufgen.junk(rng, rng.randint(0, 20), False)
            add("soup", text, rng.choice([16, 128, 2048, None]), rng.choice(["whole", "chars", "cuts", "cuts"]))
        for _ in range(250 * n):    # B
            thr = rng.choice([128, 2048, 2048, None])
            msgs = [bufgen.valid_message(rng, short=True) for _ in range(rng.randint(1, 4))]
            text, ends = "", []
            for m in msgs:
                text += bufgen.junk(rng, rng.randint(0, 25), True)
                sp = bufgen.spelling(rng, m)
                if thr == 128 and len(sp) > 100:
                    break
                text += sp
                ends.append(len(text))
            text += bufgen.junk(rng, rng.randint(0, 10), True)
            add("benign", text, thr, rng.choice(["whole", "chars", "cuts", "cuts"]),
                expect={"views": [bufgen.view(m) for m in msgs[:len(ends)]], "ends": ends})
        base = [bufgen.valid_message(rng, short=False, kind=k) for k in ("setTextVector", "defNumberVector", "getProperties", "newSwitchVector")]
        for m in base:              # C
            sp = bufgen.spelling(rng, m, {"quote": '"', "selfclose": "space"})
            step = 1 if tier == "thorough" else 3
            for cut in range(1, len(sp), step):
                thr = rng.choice([2048, 2048, 128])
                later = [bufgen.valid_message(rng, short=True) for _ in range(2)]
                lsp = [bufgen.spelling(rng, x, {"quote": '"', "selfclose": "space"}) for x in later]
                if thr == 128 and any(len(x) > 100 for x in lsp):
                    thr = 2048
                filler = ""
                fm = msggen.gen_message(rng, "getProperties")
                while len(filler) <= thr + 50:
                    filler += bufgen.spelling(rng, fm, {"quote": '"', "selfclose": "space"})
                text = sp[:cut] + "".join(lsp) + filler
                add("truncated", text, thr, rng.choice(["whole", "cuts", "blocks"]), late=[bufgen.view(x) for x in later])
                if thr == 128:
                    cases[-1]["front"] = [sp[:cut], "".join(lsp) + filler]
        for _ in range(100 * n):    # D
            msgs = [bufgen.valid_message(rng) for _ in range(rng.randint(1, 3))]
            text = "".join(bufgen.spelling(rng, m) + rng.choice(["", "\n", " "]) for m in msgs)
            add("valid", text, rng.choice([2048, None]), rng.choice(["whole", "cuts", "blocks"]))
        # E: complete, well-formed elements that are no messages (a known root with an unknown or foreign child, missing or
        # invalid attributes, stray text ...) between valid messages: skipped silently, the neighbours delivered
        from harness import xmlgen
        for kind in (("setTextVector", "defSwitchVector", "newNumberVector", "message", "setLightVector", "defBLOBVector") if tier == "quick"
                     else sorted(msggen.GRAMMAR)):
            m = msggen.gen_message(rng, kind, max_children=2)
            if m["children"] is not None and not m["children"]:
                m["children"] = [msggen.gen_part(rng, msggen.GRAMMAR[kind][3])]
            trees = list(xmlgen.perturb(rng, m))
            root = xmlgen.msg_tree(m)
            trees.append(("unknown-child", [root[0], root[1], "", [["bogus", [["name", "X"]], "1", []]]]))
            trees.append(("message-as-child", [root[0], root[1], "", [["getProperties", [["version", "1.7"]], "", []]]]))
            trees.append(("grandchild", [root[0], root[1], "", [["oneText", [["name", "X"]], "", [["oneText", [["name", "Y"]], "v", []]]]]]))
            for label, t in trees:
                a, b = bufgen.valid_message(rng, short=True), bufgen.valid_message(rng, short=True)
                st = {"quote": '"', "selfclose": "space"}
                # back to back, or framed the way to_string frames messages (declaration and newlines between them)
                sep = rng.choice(["", "", "\n", '\n<?xml version="1.0"?>\n'])
                text = bufgen.spelling(rng, a, st) + sep + xmlgen.spell(rng, t, st) + sep + bufgen.spelling(rng, b, st)
                thr = rng.choice([None, 2048]) if len(text) < 1500 else None
                add("not-a-message:" + label.split(":")[0].split("=")[0], text, thr, rng.choice(["whole", "chars", "cuts"]),
                    late=[bufgen.view(a), bufgen.view(b)])
        # F: messages whose length sits right at the threshold, arriving so that exactly threshold characters are pending
        for thr in (16, 128, 2048):
            for extra in (-2, -1, 0, 1, 2, 3):
                pad = "p" * 3000
                head = '<message device="'
                tail = '"/>'
                n = thr + extra - len(head) - len(tail)
                if n < 1:
                    head, tail = "<message", "/>"
                    n = 0
                sp = head + pad[:n] + tail if n else head + " " * max(0, thr + extra - len(head) - len(tail)) + tail
                nxt = bufgen.spelling(rng, bufgen.valid_message(rng, short=True), {"quote": '"', "selfclose": "space"})
                if thr < 128:
                    nxt = "<pingReply uid=\"1\"/>"[:thr]
                for how in ("chars", "whole"):
                    add("boundary", sp + nxt + nxt, thr, how)
                cases.append({"label": "boundary", "thr": thr, "pieces": [sp[:thr], sp[thr:] + nxt, nxt], "expect": None, "late": None})
                cases.append({"label": "boundary", "thr": thr, "pieces": [sp[:max(1, thr - 1)], sp[max(1, thr - 1):thr + 1], sp[thr + 1:] + nxt], "expect": None, "late": None})
        cases = [c for c in cases if all(isinstance(p, str) for p in c["pieces"]) and any(c["pieces"])]
        for c in cases:
            c["pieces"] = [p for p in c["pieces"] if p != ""] or [""]
        # the hypothesis of corrupt_front_is_abandoned, evaluated by the model on the short truncations
        idx = [i for i, c in enumerate(cases) if c.get("front")]
        res, err = core.run_model("buffer", [["corrupt", c["front"]] for c in (cases[i] for i in idx)])
        for i, r in zip(idx, res or []):
            cases[i]["model_corrupt"] = bool(r[0]) and bool(r[1]) if isinstance(r, list) else None
        # every Latin-1 code point alone and after a '<'
        for cp in range(256):
            add("soup", "<" + chr(cp) + ">x", rng.choice([16, None]), "whole")
        return cases

    def model_input2(self, c, obs):
        table = obs.get("table", []) if obs.get("status") == "ok" else []
        seen, tb = set(), []
        for s, code, i in table:
            if s not in seen:
                seen.add(s)
                tb.append([s, code, i])
        return ["table", [[] if c["thr"] is None else [c["thr"]], obs.get("tags", []), list(c["pieces"]), tb]]

    def model_input(self, c):
        return ["table", [[] if c["thr"] is None else [c["thr"]], [], list(c["pieces"]), []]]

    def compare(self, c, obs, mout):
        if obs["status"] != "ok":
            return "implementation %s; the model terminates on every input" % obs["status"]
        if not isinstance(mout, list):
            return "model rejected the input"
        if obs["raised"]:
            return "process raised %s; the model raises nothing" % obs["raised"]
        outs, dlen = mout
        for k, (o, mo) in enumerate(zip(obs["pieces"], outs)):
            if mo[0] != 0:
                return "model ran out of fuel (impossible by process_total)"
            # compare delivered messages by their source text: ids are per-run labels
            src = obs["sources"]
            isrc = [src.get(str(i)) for i in o["ids"]]
            msrc = [src.get(str(i)) for i in mo[1]]
            if isrc != msrc:
                return "piece %d: implementation delivers %s, model %s" % (k, o["ids"], mo[1])
        if dlen != obs["data_len"]:
            return "retained length differs: implementation %d, model %d" % (obs["data_len"], dlen)
        return None

    def oracle(self, c, obs):
        if obs["status"] == "hang":
            return "hang: process() did not return (threshold %s)" % c["thr"]
        if obs["status"] != "ok":
            return "crashed: %s" % obs["status"]
        if obs["raised"]:
            return "raised: process() raised %s" % obs["raised"]
        text = "".join(c["pieces"])
        # the one parser fact the junk theorems assume: an accepted text contains a known-tag opener
        for s, code, _ in obs["table"]:
            if code == 2 and not any(("<" + t) in s for t in obs["tags"]):
                return "parser-fact: from_string accepted %r, which contains no known-tag opener" % s[:60]
        if any("<" in t for t in obs["tags"]):
            return "parser-fact: a registered tag contains '<'"
        delivered = []
        for k, o in enumerate(obs["pieces"]):
            for i, v in zip(o["ids"], o["views"]):
                s = obs["sources"].get(str(i))
                if "not-a-message" in v:
                    return "not-genuine: the consumer was handed %s" % v["not-a-message"]
                if s is None or s not in text:
                    return "not-genuine: a delivered %s was not parsed from a contiguous piece of the input" % v.get("kind")
                delivered.append((k, v))
        if c["thr"] is not None and obs["data_len"] > c["thr"]:
            return "bloat: %d characters retained with threshold %d" % (obs["data_len"], c["thr"])
        if c["expect"]:
            exp = c["expect"]["views"]
            got = [v for _, v in delivered]
            if got != exp:
                return "junk-not-transparent: delivered %d messages, the stream holds %d valid ones around benign junk (threshold %s)" % (len(got), len(exp), c["thr"])
            pos, ends = 0, []
            for p in c["pieces"]:
                pos += len(p)
                ends.append(pos)
            for (k, v), e in zip(delivered, c["expect"]["ends"]):
                due = next(i for i, x in enumerate(ends) if x >= e)
                if k > due:
                    return "junk-delays: message complete after piece %d delivered only after piece %d" % (due, k)
        if c["late"]:
            got = [v for _, v in delivered]
            it = iter(got)
            if not all(any(g == want for g in it) for want in c["late"]):
                return "no-recovery: valid messages after a truncated element were not all delivered (threshold %s)" % c["thr"]
        return None

    def nontrivial(self, c, obs):
        return None if c["label"] == "valid" else core.sha([c["thr"], c["pieces"]])

    def histogram(self, cases, obs):
        h = {}
        for c, o in zip(cases, obs):
            k = "%s/thr=%s" % (c["label"], c["thr"])
            h[k] = h.get(k, 0) + 1
        h["truncations_checked_by_model"] = sum(1 for c in cases if "model_corrupt" in c)
        h["truncations_model_says_corrupt"] = sum(1 for c in cases if c.get("model_corrupt"))
        h["messages_delivered"] = sum(len(p["ids"]) for o in obs if o.get("status") == "ok" for p in o["pieces"])
        h["parser_answers_recorded"] = sum(len(o.get("table", [])) for o in obs)
        return h

    def sample(self, c, obs):
        return {"label": c["label"], "thr": c["thr"], "pieces": c["pieces"][:6], "delivered": [p["ids"] for p in obs.get("pieces", [])][:6]}


PROP = C11()
