import itertools

from harness import core, msggen, xmlgen, bufgen
from harness.props.c03 import rich_message, view_of_model


def latin(s):
    return "".join(ch if ord(ch) < 256 else "&#%d;" % ord(ch) for ch in s)


SEPS = ["", "", "\n", " ", "\n\n  ", '<?xml version="1.0"?>\n', "<?xml version='1.0' encoding='UTF-8'?>", "\r\n"]


class C02(core.Prop):
    id = "C02"
    prop_file = "C02.v"
    impl_module = "c02"
    entry = "buffer"
    correspondence = ("Buffer fed piece by piece (directly and through the TCP-server, TCP-client, BLOB-client and TTY receive loops) vs "
                      "Buffer.Model.feed with the concrete XML + message model as parser")
    uses_registry = True
    rule = ("streams of 1-5 messages of every kind (0-8 children, text with > < & quotes and non-ASCII) in 4 spellings, separated by nothing, "
            "whitespace or XML declarations x partitions {whole, per character, every 1-cut; every 2-cut of short streams; random 3..6-cuts; "
            "1024-blocks} x threshold {smallest sufficient, 2048, disabled} + the same streams through the three real receive loops, half of them with a neighbouring connection of the same kind served in turns (a third of those ending inside a message); every distinct "
            "spelling is also checked by the model against all clauses of Framing.spelling; non-trivial = more than one piece; distinct by (thr, pieces)")
    assumptions = ["messages are no longer than the threshold when one is set (longer ones are the recorded finding K1 under C08)",
                   "raw text is Latin-1 (what the transports decode); other code points travel as character references"]
    per_case_timeout = 10

    def gen(self, rng, tier):
        cases = []
        spellings = {}

        def stream(n_msgs, short=False):
            ms, text, ends = [], rng.choice(SEPS), []
            for _ in range(n_msgs):
                m = bufgen.valid_message(rng, short=True) if short else rich_message(rng, rng.choice(sorted(msggen.GRAMMAR)))
                for p in m["children"] or []:
                    if p["value"] is not None:
                        p["value"] = p["value"].strip()
                sp = latin(xmlgen.spell(rng, xmlgen.msg_tree(m), rng.choice(xmlgen.STYLES)))
                spellings[sp] = m
                text += sp
                ends.append(len(text))
                text += rng.choice(SEPS)
                ms.append(m)
            return ms, text, ends

        def add(ms, text, ends, thr, pieces, transport=None):
            cases.append({"thr": thr, "pieces": pieces, "expect": [bufgen.view(m) for m in ms], "ends": ends, "transport": transport})

        def thrs(ms_text):
            longest = max(len(s) for s in ms_text)
            return [longest, 2048 if longest <= 2048 else None, None]

        n = 1 if tier == "quick" else 15
        for _ in range(12 * n):          # every 1-cut, whole, per character
            ms, text, ends = stream(rng.randint(1, 3))
            lens = [e - (ends[i - 1] if i else 0) for i, e in enumerate(ends)]
            for thr in thrs(["x" * max(lens)]):
                if thr is not None and thr < max(lens):
                    continue
                add(ms, text, ends, thr, [text])
                add(ms, text, ends, thr, list(text))
                for cut in range(1, len(text), 1 if tier == "thorough" else 2):
                    add(ms, text, ends, thr, [text[:cut], text[cut:]])
        for _ in range(2 * n):           # every 2-cut of short streams
            ms, text, ends = stream(2, short=True)
            if len(text) > 90:
                continue
            thr = rng.choice([max(ends[0], ends[1] - ends[0]) + 20, None])
            for a, b in itertools.combinations(range(1, len(text)), 2):
                add(ms, text, ends, thr, [text[:a], text[a:b], text[b:]])
        for _ in range(150 * n):         # random k-cuts and blocks, longer streams
            ms, text, ends = stream(rng.randint(1, 5))
            lens = [e - (ends[i - 1] if i else 0) for i, e in enumerate(ends)]
            thr = rng.choice([max(lens), 2048 if max(lens) <= 2048 else None, None])
            add(ms, text, ends, thr, bufgen.cuts(rng, text, rng.choice(["cuts", "cuts", "blocks", rng.randint(3, 6)])))
        for _ in range(60 * n):          # the real receive loops
            ms, text, ends = stream(rng.randint(1, 4))
            lens = [e - (ends[i - 1] if i else 0) for i, e in enumerate(ends)]
            tr = rng.choice(["tcp-server", "tcp-client", "tcp-client-blob", "tty"])
            if max(lens) > 2048 and tr != "tcp-client-blob":
                continue
            pieces = [p for p in bufgen.cuts(rng, text, rng.choice(["cuts", "chars", "whole", "blocks"])) if p]
            add(ms, text, ends, None if tr == "tcp-client-blob" else 2048, pieces, transport=tr)
            if rng.random() < 0.5:
                # a neighbouring connection of the same kind whose data arrives in turns with this one's; in a third of
                # the cases it ends inside its last message.  What a connection delivers depends on its own stream alone.
                ms2, text2, ends2 = stream(rng.randint(1, 3))
                lens2 = [e - (ends2[i - 1] if i else 0) for i, e in enumerate(ends2)]
                if max(lens2) <= 2048 or tr == "tcp-client-blob":
                    upto = len(text2)
                    if rng.random() < 0.34:
                        upto = rng.randint((ends2[-2] if len(ends2) > 1 else 0) + 1, ends2[-1] - 1)
                    p2 = [q for q in bufgen.cuts(rng, text2[:upto], rng.choice(["cuts", "chars", "blocks", 3])) if q]
                    cases[-1]["neighbour"] = {"pieces": p2, "first": rng.random() < 0.5,
                                              "expect": [bufgen.view(m) for m, e in zip(ms2, ends2) if e <= upto]}
        # every distinct spelling against the clauses of Framing.spelling (thr = its own length)
        sp_list = sorted(spellings)
        res, err = core.run_model("buffer", [["spell", [[len(s)], s]] for s in sp_list])
        self.spell_checked = len(sp_list)
        self.spell_ok = sum(1 for r in (res or []) if isinstance(r, list) and r)
        self.spell_bad = [s for s, r in zip(sp_list, res or []) if not (isinstance(r, list) and r)][:3]
        return cases

    def model_input(self, c):
        return ["concrete", [[] if c["thr"] is None else [c["thr"]], list(c["pieces"])]]

    def compare(self, c, obs, mout):
        if obs["status"] != "ok":
            return "implementation %s; the model terminates" % obs["status"]
        if obs["raised"]:
            return "process raised %s" % obs["raised"]
        if not isinstance(mout, list):
            return "model rejected the input"
        if obs["thr_used"] != c["thr"]:
            return "transport %s uses threshold %s, expected %s" % (c["transport"], obs["thr_used"], c["thr"])
        for k, (iv, mo) in enumerate(zip(obs["pieces"], mout[0])):
            mv = [view_of_model([m]) for m in mo[1]]
            if iv != mv:
                return "piece %d: implementation delivers %d message(s) %s, model %d" % (k, len(iv), [v.get("kind") for v in iv], len(mv))
        return None

    def oracle(self, c, obs):
        if obs["status"] == "hang":
            return "hang: framing never returned (threshold %s, %s)" % (c["thr"], c.get("transport") or "buffer")
        if obs["status"] != "ok":
            return "crashed: %s %s" % (obs["status"], obs.get("detail", ""))
        if obs["raised"]:
            return "raised: %s" % obs["raised"]
        got = [(k, v) for k, vs in enumerate(obs["pieces"]) for v in vs]
        where = c.get("transport") or "buffer"
        if [v for _, v in got] != c["expect"]:
            kinds = [v.get("kind") for _, v in got]
            return "lossless: sent %s, delivered %s (threshold %s, %d pieces, %s)" % (
                [v["kind"] for v in c["expect"]], kinds, c["thr"], len(c["pieces"]), where)
        if c.get("neighbour") and obs.get("neighbour") != c["neighbour"]["expect"]:
            return "lossless: a neighbouring %s connection was sent %s and delivered %s while this one was served" % (
                where, [v["kind"] for v in c["neighbour"]["expect"]], [v.get("kind") for v in obs.get("neighbour") or []])
        pos, bounds = 0, []
        for p in c["pieces"]:
            pos += len(p)
            bounds.append(pos)
        for (k, v), e in zip(got, c["ends"]):
            due = next(i for i, x in enumerate(bounds) if x >= e)
            if k > due:
                return "prompt: a %s complete after piece %d was delivered only after piece %d (threshold %s, %s)" % (v["kind"], due, k, c["thr"], where)
        return None

    def nontrivial(self, c, obs):
        return core.sha([c["thr"], c["pieces"], c.get("transport"), c.get("neighbour")]) if len(c["pieces"]) > 1 else None

    def histogram(self, cases, obs):
        h = {"spellings_checked_against_Framing.spelling": getattr(self, "spell_checked", 0),
             "spellings_satisfying_it": getattr(self, "spell_ok", 0),
             "spellings_failing_it_sample": getattr(self, "spell_bad", [])}
        for c in cases:
            k = "%s/thr=%s" % (c.get("transport") or "buffer", "len" if c["thr"] not in (None, 2048) else c["thr"])
            h[k] = h.get(k, 0) + 1
            if c.get("neighbour"):
                h["with_a_neighbouring_connection"] = h.get("with_a_neighbouring_connection", 0) + 1
        return h

    def sample(self, c, obs):
        return {"thr": c["thr"], "transport": c.get("transport"), "pieces": c["pieces"][:5], "n_pieces": len(c["pieces"]),
                "delivered_per_piece": [len(v) for v in obs.get("pieces", [])][:8]}


PROP = C02()
