from harness import core, msggen, clientgen


def cb_sx(cb):
    o = lambda x: [] if x is None else [x]
    return [cb["id"], o(cb["dev"]), o(cb["vec"]), o(cb["elem"]), cb["type"]]


def model_event(e):
    def cv(x):
        return ["raw", x[1][0] if x[1] else None] if x[0] == "r" else ["blob", [ord(c) for c in x[1]], x[2]]
    if e[0] == "value":
        return ["value", e[1], e[2], e[3], cv(e[4]), cv(e[5])]
    if e[0] == "state":
        return ["state", e[1], e[2], e[3][0] if e[3] else None, e[4]]
    return ["def", e[1], e[2]]


def matches(cb, ev):
    typ = ev[0]
    if cb["dev"] is not None and cb["dev"] != ev[1]:
        return False
    if cb["vec"] is not None and cb["vec"] != ev[2]:
        return False
    if cb["elem"] is not None and (typ != "value" or cb["elem"] != ev[3]):
        return False
    return cb["type"] == "any" or cb["type"] == typ


class C16(core.Prop):
    id = "C16"
    prop_file = "C16.v"
    impl_module = "client"
    entry = "client"
    correspondence = "BaseClient.onevent / rmonevent / trigger_event along a message stream vs Client.Model.cstep (deliveries per operation)"
    rule = ("message streams as in C15 x callback sets with every combination of filters (device / property / element / event type each absent, "
            "matching or non-matching), plain (function / bound method / functools.partial / callable object), coroutine and raising callbacks, registered and removed by id or by criteria between messages; a "
            "catch-all callback registered first records the event stream; non-trivial = at least one filtered callback received an event; "
            "distinct by content")
    assumptions = ["callbacks are registered and removed between messages, not from inside a callback"]

    def gen(self, rng, tier):
        cases = []
        for _ in range(350 if tier == "quick" else 10000):
            stream = clientgen.gen_stream(rng, rng.randint(4, 22))
            ops = [["on", {"id": 0, "dev": None, "vec": None, "elem": None, "type": "any"}]]
            live, nid = [], 1
            for m in stream:
                for _ in range(rng.choice([0, 0, 1, 2])):
                    cb = {"id": nid, "dev": rng.choice([None, None, "D1", "D2", "D9"]), "vec": rng.choice([None, None, "A", "B", "Z"]),
                          "elem": rng.choice([None, None, None, "x", "y", "q"]), "type": rng.choice(["any", "def", "value", "state"]),
                          "coro": rng.random() < 0.25, "raises": rng.random() < 0.2}
                    nid += 1
                    ops.append(["on", cb])
                    live.append(cb)
                if live and rng.random() < 0.2:
                    if rng.random() < 0.5:
                        cb = rng.choice(live)
                        ops.append(["rmid", cb["id"]])
                    else:
                        crit = [rng.choice([None, "D1", "D2"]), rng.choice([None, None, "A", "B"]),
                                rng.choice([None, None, "x"]), rng.choice([None, None, "value", "state"])]
                        if all(x is None for x in crit):
                            crit[0] = "D1"      # "remove everything" would also remove the recording catch-all
                        ops.append(["rmcrit"] + crit)
                ops.append(["recv", m])
            if rng.random() < 0.3:          # remove everything at the end, then one more message: nobody may be invoked
                ops.append(["rmcrit", None, None, None, None])
                ops.append(["recv", clientgen.gen_def(rng)])
            cases.append({"mode": "direct", "ops": ops})
        return cases

    def model_input(self, c):
        out = []
        for op in c["ops"]:
            if op[0] == "recv":
                out.append(["recv", msggen.sx_msg(op[1])])
            elif op[0] == "on":
                out.append(["on", cb_sx(op[1])])
            elif op[0] == "rmid":
                out.append(["rmid", op[1]])
            else:
                o = lambda x: [] if x is None else [x]
                out.append(["rmcrit", o(op[1]), o(op[2]), o(op[3]), o(op[4])])
        return out

    def compare(self, c, obs, mout):
        if obs["status"] != "ok":
            return "implementation %s %s" % (obs["status"], obs.get("detail", ""))
        if not isinstance(mout, list):
            return "model rejected the input"
        dls, sents, mirror, cbs = mout
        coro = {op[1]["id"] for op in c["ops"] if op[0] == "on" and op[1].get("coro")}
        for k, (o, md) in enumerate(zip(obs["ops"], dls)):
            if o["raised"]:
                return "operation %d %s raised %s" % (k, c["ops"][k][0], o["raised"])
            want = [[i, model_event(e)] for i, e in md]
            got_sync = o["log"]
            got_after = o["after"]
            if [x for x in want if x[0] not in coro] != got_sync:
                return "operation %d: plain-callback deliveries differ: impl %s model %s" % (k, str(got_sync)[:300], str([x for x in want if x[0] not in coro])[:300])
            if sorted(map(str, [x for x in want if x[0] in coro])) != sorted(map(str, got_after)):
                return "operation %d: coroutine-callback deliveries differ" % k
        if len(cbs) != obs["callbacks_left"]:
            return "callbacks left registered: impl %d model %d" % (obs["callbacks_left"], len(cbs))
        if clientgen.model_mirror(mirror) != obs["view"]:
            return "final view differs"
        return None

    def oracle(self, c, obs):
        if obs["status"] != "ok":
            return "crashed: %s %s" % (obs["status"], obs.get("detail", ""))
        registered = {}
        last = {}        # (d, v, e) -> last new value seen in a value event
        for k, (op, o) in enumerate(zip(c["ops"], obs["ops"])):
            if o["raised"]:
                return "raised: %s raised %s" % (op[0], o["raised"])
            if op[0] == "on":
                registered[op[1]["id"]] = op[1]
            elif op[0] == "rmid":
                registered.pop(op[1], None)
            elif op[0] == "rmcrit":
                for i, cb in list(registered.items()):
                    if all(c0 is None or c0 == x for c0, x in ((op[1], cb["dev"]), (op[2], cb["vec"]), (op[3], cb["elem"]), (op[4], cb["type"] if op[4] else None))):
                        if op[4] is None or op[4] == cb["type"]:
                            del registered[i]
            else:
                allev = o["log"] + o["after"]
                if 0 not in registered:
                    if allev:
                        return "removed-callback-invoked: callback %d was invoked after every callback had been removed" % allev[0][0]
                    continue
                stream = [e for i, e in o["log"] if i == 0]
                for i in sorted({i for i, e in allev} | set(registered)):
                    if i == 0:
                        continue
                    got = [e for j, e in allev if j == i]
                    if i not in registered:
                        return "removed-callback-invoked: callback %d received %s after it was removed / never registered" % (i, got[0][0])
                    want = [e for e in stream if matches(registered[i], e)]
                    if got != want:
                        return "callback-log: callback %d (filter %s) received %d event(s), %d of the raised events match its filter" % (
                            i, {k2: registered[i][k2] for k2 in ("dev", "vec", "elem", "type")}, len(got), len(want))
                for e in stream:
                    if e[0] == "value":
                        key = (e[1], e[2], e[3])
                        if e[4] != ["raw", None] or key in last and False:
                            if last.get(key) != e[4]:
                                return "chain-broken: value event for %s has old %s, the previous event left %s" % (key, e[4], last.get(key))
                            if e[4] == e[5]:
                                return "spurious-event: value event for %s without a change" % (key,)
                        last[key] = e[5]
                    elif e[0] == "def":
                        pass
        # the current view agrees with the last announced value of every element
        for d, vs in (obs["view"] if 0 in registered else []):
            for v in vs:
                for e in v[5]:
                    key = (d, v[0], e[0])
                    if key not in last:
                        return "stale: element %s is in the view but no value event ever announced it" % (key,)
                    if last[key] != e[2]:
                        return "stale: element %s shows %s, the last value event announced %s" % (key, e[2], last[key])
        return None

    def nontrivial(self, c, obs):
        if obs.get("status") == "ok" and any(i != 0 for o in obs["ops"] for i, e in o["log"] + o["after"]):
            return core.sha(c["ops"])
        return None

    def histogram(self, cases, obs):
        h = {"ops": sum(len(c["ops"]) for c in cases)}
        for c in cases:
            for op in c["ops"]:
                h[op[0]] = h.get(op[0], 0) + 1
        h["deliveries"] = sum(len(o["log"]) + len(o["after"]) for ob in obs for o in (ob.get("ops") or []))
        return h

    def sample(self, c, obs):
        return {"ops": [[o[0], (o[1]["kind"] if o[0] == "recv" else o[1])] for o in c["ops"][:8]]}


PROP = C16()
