import itertools

from harness import core


class Sim:
    """the scheduler semantics of Async/Send.v, used only to enumerate meaningful schedules"""

    def __init__(self, kinds):
        self.tty = [k == "tty" for k in kinds]
        n = len(kinds)
        self.lock = [False] * n
        self.wait = [[] for _ in range(n)]
        self.hold = [None] * n          # [task, done]
        self.pend = [False] * n
        self.ready = []
        self.sent = [0] * n

    def clone(self):
        s = Sim.__new__(Sim)
        s.tty = self.tty
        s.lock = list(self.lock)
        s.wait = [list(w) for w in self.wait]
        s.hold = [None if h is None else list(h) for h in self.hold]
        s.pend = list(self.pend)
        s.ready = list(self.ready)
        s.sent = list(self.sent)
        return s

    def acquire(self, c, t):
        self.lock[c] = True
        self.hold[c] = [t, 0]
        self.pend[c] = True

    def run_one(self):
        (c, t), p = self.ready.pop(0)
        if p == "start":
            if not self.lock[c] and not self.wait[c]:
                self.acquire(c, (c, t))
            else:
                self.wait[c].append((c, t))
        elif p == "woken":
            self.wait[c].pop(0)
            self.acquire(c, (c, t))
        else:
            h = self.hold[c]
            if self.tty[c] and h[1] == 0:
                h[1] = 1
                self.pend[c] = True
            else:
                self.lock[c] = False
                self.hold[c] = None
                self.pend[c] = False
                if self.wait[c]:
                    self.ready.append((self.wait[c][0], "woken"))

    def apply(self, mv):
        if mv[0] == "route":
            self.ready.append(((mv[1], mv[2]), "start"))
            self.sent[mv[1]] += 1
        elif mv[0] == "iter":
            for _ in range(len(self.ready)):
                self.run_one()
        else:
            c = mv[1]
            if self.hold[c] is not None and self.pend[c]:
                self.pend[c] = False
                self.ready.append((self.hold[c][0], "io"))

    def key(self):
        return (tuple(self.lock), tuple(map(tuple, self.wait)), tuple(None if h is None else tuple(h) for h in self.hold),
                tuple(self.pend), tuple(self.ready), tuple(self.sent))


def schedules(kinds, burst, depth, stalled=None):
    """every sequence of meaningful moves up to `depth`, `burst` messages per connection"""
    out = []
    n = len(kinds)

    def rec(sim, moves):
        if moves:
            out.append(list(moves))
        if len(moves) >= depth:
            return
        opts = []
        for c in range(n):
            if sim.sent[c] < burst:
                opts.append(["route", c, c * 100 + sim.sent[c]])
        if sim.ready:
            opts.append(["iter"])
        for c in range(n):
            if sim.pend[c] and c != stalled:
                opts.append(["complete", c])
        for mv in opts:
            s2 = sim.clone()
            s2.apply(mv)
            rec(s2, moves + [mv])

    rec(Sim(kinds), [])
    # keep maximal schedules and a sample of the others: a prefix is covered by its extensions step by step
    keep = [m for m in out if len(m) == depth or not any(True for _ in [])]
    seen, res = set(), []
    for m in sorted(out, key=len, reverse=True):
        t = tuple(map(tuple, m))
        if any(t == s[:len(t)] for s in seen):
            continue
        seen.add(t)
        res.append(m)
    return res


class C19(core.Prop):
    def extra_search(self, rng):
        return self.gen(rng, "quick")[:1500]

    id = "C19"
    prop_file = "C19.v"
    impl_module = "c19"
    entry = "send"
    correspondence = ("real TCP-server / TCP-client / TTY connection handlers on a real asyncio loop stepped one iteration at a time, with fake "
                      "writers whose drain/write/flush futures the schedule completes, vs Async.Send.step (outputs, ready-queue length, pending I/O "
                      "after every move)")
    rule = ("exhaustive enumeration of the scheduler's choice points: every sequence of {route next message to a connection, run one loop iteration, "
            "complete a connection's pending I/O} up to a depth, for bursts of 1-3 messages on 1-2 connections of each transport (quick) / 1-4 on 1-3 "
            "(thorough), including one connection whose I/O never completes, every twelfth schedule also with messages longer than 64 KiB and with byte-identical messages; only maximal sequences are kept (every prefix is observed move by move); "
            "non-trivial = schedule with at least two messages routed to one connection; distinct by (transports, moves)")
    assumptions = ["the asyncio runtime (FIFO ready queue, Lock fairness, future wake-ups) is modelled, validated by this exploration, not verified",
                   "a TTY write reaches the stream when its awaitable completes (thread-pool completion order is the environment's choice)"]
    per_case_timeout = 10

    def gen(self, rng, tier):
        cases = []
        plans = [(["tcp-server"], 3, 11, None), (["tty"], 3, 11, None), (["tcp-client"], 3, 10, None),
                 (["tcp-server", "tcp-server"], 2, 7, None), (["tcp-server", "tty"], 2, 7, None),
                 (["tcp-server", "tcp-server"], 2, 8, 0), (["tty", "tcp-client"], 2, 7, 1)]
        if tier == "thorough":
            plans += [(["tcp-server"], 4, 12, None), (["tty"], 4, 12, None), (["tcp-server", "tty", "tcp-client"], 2, 8, None),
                      (["tcp-server", "tcp-server", "tcp-server"], 2, 8, 0)]
        cap = 2500 if tier == "quick" else 60000
        self.capped = {}
        for kinds, burst, depth, stalled in plans:
            sc = schedules(kinds, burst, depth, stalled)
            if len(sc) > cap:
                self.capped["+".join(kinds)] = [len(sc), cap]
                rng.shuffle(sc)
                sc = sc[:cap]
            for j, m in enumerate(sc):
                cases.append({"kinds": kinds, "moves": m, "stalled": stalled})
                if j % 12 == 9:
                    # the same schedule with the same bytes every time: a repeated command is as much a message as the first
                    cases.append({"kinds": kinds, "moves": m, "stalled": stalled, "same": 1 + (j // 12) % 2})
                if j % 12 == 5:
                    # the same schedule with every other message longer than 64 KiB
                    cases.append({"kinds": kinds, "moves": m, "stalled": stalled, "big": True})
        return cases

    def model_input2(self, c, obs):
        mvs = []
        steps = obs.get("steps", []) if obs.get("status") == "ok" else []
        for mv, st in zip(c["moves"], steps):
            if mv[0] == "route":
                mvs.append(["route", mv[1], mv[2]])
            elif mv[0] == "iter":
                mvs += [["run"]] * st["nready_before"]
            else:
                mvs.append(["complete", mv[1]])
        return [[k == "tty" for k in c["kinds"]], mvs]

    def model_input(self, c):
        return [[k == "tty" for k in c["kinds"]], []]

    def compare(self, c, obs, mout):
        if obs["status"] != "ok":
            return "implementation %s %s" % (obs["status"], obs.get("detail", ""))
        if not isinstance(mout, list):
            return "model rejected input"
        from harness.impl.c19 import content_k, shown
        pos = 0
        for i, (mv, st) in enumerate(zip(c["moves"], obs["steps"])):
            if st["raised"]:
                return "move %d %s raised %s" % (i, mv, st["raised"])
            pos += st["nready_before"] if mv[0] == "iter" else 1
            if pos == 0:
                continue
            m = mout[pos - 1]
            want = ["".join(shown(content_k(c, k).to_string().decode("latin1"), c.get("big")) for k in ks) for ks in m[0]]
            if st["out"] != want:
                return "after move %d %s: streams hold %s, model %s" % (i, mv, [len(x) for x in st["out"]], [len(x) for x in want])
            if st["nready_after"] != m[1]:
                return "after move %d %s: %d handles ready, model %d" % (i, mv, st["nready_after"], m[1])
            if st["pending"] != [bool(x) for x in m[2]]:
                return "after move %d %s: pending I/O %s, model %s" % (i, mv, st["pending"], m[2])
        return None

    def oracle(self, c, obs):
        if obs["status"] != "ok":
            return "crashed: %s %s" % (obs["status"], obs.get("detail", ""))
        routed = {}
        for i, (mv, st) in enumerate(zip(c["moves"], obs["steps"])):
            if st["raised"]:
                return "raised: move %s raised %s" % (mv, st["raised"])
            if mv[0] == "route":
                routed.setdefault(mv[1], []).append(obs["expected"][str(mv[1])][len(routed.get(mv[1], []))])
            for cn, text in enumerate(st["out"]):
                msgs = routed.get(cn, [])
                acc, ok = "", text == ""
                for m in msgs:
                    acc += m
                    if acc == text:
                        ok = True
                        break
                if not ok:
                    return "order: connection %d (%s) holds bytes that are not a whole-message prefix of what was routed to it, after %s" % (
                        cn, c["kinds"][cn], c["moves"][:i + 1])
                if st["nready_after"] == 0 and not st["pending"][cn] and text != "".join(msgs):
                    return "complete: nothing is ready to run and connection %d (%s) has no I/O pending, yet only %d of the %d characters of the %d messages routed to it are out, after %s" % (
                        cn, c["kinds"][cn], len(text), len("".join(msgs)), len(msgs), c["moves"][:i + 1])
        # a stalled connection delays only itself: finish everything else and look
        return None

    def nontrivial(self, c, obs):
        per = {}
        for mv in c["moves"]:
            if mv[0] == "route":
                per[mv[1]] = per.get(mv[1], 0) + 1
        return core.sha([c["kinds"], c["moves"], c.get("same"), c.get("big")]) if any(v >= 2 for v in per.values()) else None

    def histogram(self, cases, obs):
        h = {"capped_enumerations": getattr(self, "capped", {})}
        for c in cases:
            k = "+".join(c["kinds"]) + ("/stalled" if c["stalled"] is not None else "")
            h[k] = h.get(k, 0) + 1
        h["moves"] = sum(len(c["moves"]) for c in cases)
        return h

    def sample(self, c, obs):
        return {"kinds": c["kinds"], "moves": c["moves"], "final_out_lengths": [len(x) for x in obs.get("steps", [{}])[-1].get("out", [])]}


PROP = C19()
