import re

from harness import core, msggen, xmlgen

NUM = re.compile(r"^[-+]?(?:(?:[0-9]+(?:\.[0-9]*)?|\.[0-9]+)|[0-9]+[:; ](?:[0-9]+(?:\.[0-9]*)?|\.[0-9]+)|[0-9]+[:; ][0-9]+[:; ](?:[0-9]+(?:\.[0-9]*)?|\.[0-9]+))\Z")
VOC = {"state": msggen.STATES, "perm": msggen.PERMS, "rule": msggen.RULES}
DOM = {"state": msggen.STATES, "switch": msggen.SWITCH, "blobenable": msggen.BLOBEN}


def nonconformance(m):
    """why the public view m of an accepted message is not protocol-conformant (None if it is)"""
    g = msggen.GRAMMAR.get(m["kind"])
    if m["kind"] == "oneLight" and g is None:
        if m["attrs"].get("name") is None:
            return "required: oneLight without name"
        return None if m["value"] in msggen.STATES else "vocab: oneLight value %r" % m["value"]
    if g is None:
        return "kind: unknown message kind %s accepted" % m["kind"]
    req, opt, dom, child = g
    for k in req:
        if m["attrs"].get(k) is None:
            return "required: %s without %s" % (m["kind"], k)
    for k, words in VOC.items():
        if k in req and m["attrs"].get(k) not in words:
            return "vocab: %s %s=%r" % (m["kind"], k, m["attrs"].get(k))
    if dom and m["value"] not in DOM[dom]:
        return "vocab: %s value %r" % (m["kind"], m["value"])
    if child:
        for p in m["children"] or []:
            if p["kind"] != child:
                return "child-kind: %s holds a %s" % (m["kind"], p["kind"])
            preq, popt, pdom = msggen.PARTS[child]
            for k in preq:
                if p["attrs"].get(k) is None:
                    return "required: %s without %s" % (child, k)
            if pdom in DOM and p["value"] not in DOM[pdom]:
                return "vocab: %s value %r" % (child, p["value"])
            if pdom == "number" and p["value"] is not None and not NUM.match(p["value"]):
                return "number: %s value %r" % (child, p["value"])
    elif m["children"]:
        return "child-kind: %s has children" % m["kind"]
    return None


def view_of_model(mm):
    """model msg sx -> same shape as msggen.describe"""
    kind, attrs, value, children = mm
    return {"kind": kind, "attrs": {k: v for k, v in attrs}, "value": value[0] if value else None,
            "children": None if not children else [
                {"kind": p[0], "attrs": {k: v for k, v in p[1]}, "value": p[2][0] if p[2] else None} for p in children[0]]}


class C13(core.Prop):
    id = "C13"
    prop_file = "C13.v"
    impl_module = "c13"
    entry = "fromxml"
    correspondence = "IndiMessage.from_xml on ElementTree elements vs Msg.Model.msg_from_xml over the regenerated registry"
    uses_registry = True
    rule = ("XML elements: every message kind from the grammar with every systematic perturbation (each constrained field replaced by "
            "absent / empty / wrong-case / foreign-vocabulary / Python-internal-looking strings, children of every other kind, unknown tags, "
            "missing required attributes, junk / self / children / value attributes, stray and padded text, bad number texts) and random trees; "
            "non-trivial = perturbed or random element; distinct by tree")
    assumptions = ["element-level check (ElementTree elements are built directly); the text-to-element step is expat's and is covered under C03/C11"]

    def gen(self, rng, tier):
        cases = []
        rounds = 2 if tier == "quick" else 40
        for _ in range(rounds):
            for kind in sorted(msggen.GRAMMAR):
                m = msggen.gen_message(rng, kind, max_children=3)
                if m["children"] is not None and not m["children"]:
                    m["children"] = [msggen.gen_part(rng, msggen.GRAMMAR[kind][3])]
                for label, t in xmlgen.perturb(rng, m):
                    cases.append({"label": label, "tree": t})
        for _ in range(1500 if tier == "quick" else 40000):
            cases.append({"label": "random", "tree": xmlgen.random_tree(rng)})
        for v in msggen.STATES:
            cases.append({"label": "oneLight-message", "tree": ["oneLight", [["name", "n"]], v, []]})
        for v in xmlgen.FOREIGN:
            cases.append({"label": "oneLight-message:" + v, "tree": ["oneLight", [["name", "n"]], v, []]})
        return cases

    def model_input(self, c):
        return c["tree"]

    def compare(self, c, obs, mout):
        if obs["status"] != "ok":
            return "implementation %s" % obs["status"]
        if not isinstance(mout, list):
            return "model rejected input: %r" % (mout,)
        macc = bool(mout[0])
        if macc != obs["accepted"]:
            return "%s: implementation %s, model %s" % (c["label"], "accepts" if obs["accepted"] else "rejects (%s)" % obs.get("error"),
                                                        "accepts" if macc else "rejects")
        if macc:
            mv = view_of_model(mout[0][0])
            iv = dict(obs["msg"])
            if iv["children"] is not None and not iv["children"] and mv["children"] is None:
                mv["children"] = []
            if mv["children"] is not None and iv["children"] is None:
                return "children differ: model %s impl None" % (mv["children"],)
            if mv != iv:
                return "%s: parsed object differs: impl %s, model %s" % (c["label"], iv, mv)
        return None

    def oracle(self, c, obs):
        if obs["status"] != "ok":
            return "crashed: " + obs["status"]
        if not obs["accepted"]:
            return None
        why = nonconformance(obs["msg"])
        if why:
            return "%s (accepted element: %s)" % (why, c["label"].split(":")[0])
        return None

    def nontrivial(self, c, obs):
        return None if c["label"] == "valid" else core.sha(c["tree"])

    def histogram(self, cases, obs):
        h = {}
        for c, o in zip(cases, obs):
            k = c["label"].split(":")[0] + ("/accepted" if o.get("accepted") else "/rejected")
            h[k] = h.get(k, 0) + 1
        return h

    def sample(self, c, obs):
        return {"label": c["label"], "tree": c["tree"], "accepted": obs.get("accepted")}


PROP = C13()
