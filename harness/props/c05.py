import itertools

from harness import core, msggen, routergen as rg
from harness.props.c04 import random_history


class C05(core.Prop):
    id = "C05"
    prop_file = "C05.v"
    impl_module = "router"
    entry = "router"
    correspondence = "Router.process_message fan-out under enableBLOB policies vs Router.Model.step"
    uses_registry = True
    rule = ("one case = one router history: registration of a subset of 3 clients, a policy assignment "
            "{unset, Never, Also, Only} per (client, device in {A,B}) made by enableBLOB messages (some overwritten, "
            "some made before an unregister/re-register), then every device-originated kind x device {A,B,none} x "
            "sender {none, a device, a client}; plus random histories; non-trivial = at least one send with a "
            "required client delivery, distinct by content")
    assumptions = ["a BLOB payload update is setBLOBVector (the only message carrying BLOB data to clients)",
                   "policy is per (client, device name); enableBLOB's optional property name is not distinguished, as in the router"]

    def gen(self, rng, tier):
        cases = []
        pols = [None] + msggen.BLOBEN
        states = []
        for csub in itertools.chain.from_iterable(itertools.combinations(rg.CLIENT_IDS, r) for r in range(1, 4)):
            for assign in itertools.product(pols, repeat=2 * len(csub)):
                states.append((csub, assign))
        if tier == "quick":
            small = [s for s in states if len(s[0]) == 1]
            rest = [s for s in states if len(s[0]) > 1]
            rng.shuffle(rest)
            states = small + rest[:150]
        for csub, assign in states:
            ops = [["regdev", 10, "A"], ["regdev", 11, "B"]] + [["regcl", c] for c in csub]
            it = iter(assign)
            for c in csub:
                for dev in ("A", "B"):
                    p = next(it)
                    if rng.random() < 0.2:   # a setting that must be forgotten
                        ops.append(["send", c, rg.mk_msg(rng, "enableBLOB", dev, rng.choice(msggen.BLOBEN))])
                        if rng.random() < 0.5:
                            ops += [["unreg", c], ["regcl", c]]
                    if p is not None:
                        if rng.random() < 0.3:  # overwritten
                            ops.append(["send", c, rg.mk_msg(rng, "enableBLOB", dev, rng.choice(msggen.BLOBEN))])
                        ops.append(["send", c, rg.mk_msg(rng, "enableBLOB", dev, p)])
            for k in rg.DEVICE_KINDS:
                for dev in ("A", "B", None):
                    m = rg.mk_msg(rng, k, dev)
                    if m is None:
                        continue
                    for s in (None, 10, csub[0]):
                        ops.append(["send", s, m])
            cases.append({"label": "state", "ops": ops})
        n_rand = 150 if tier == "quick" else 4000
        for _ in range(n_rand):
            cases.append({"label": "random", "ops": random_history(rng, 50, rg.DEVICE_KINDS + ["enableBLOB"] * 6)})
        return cases

    model_input = lambda self, c: [rg.model_op(o) for o in c["ops"]]
    compare = lambda self, c, obs, mout: rg.compare(c, obs, mout, "clients")
    oracle = lambda self, c, obs: rg.judge(c, obs, "clients")

    def nontrivial(self, c, obs):
        if obs["status"] != "ok" or not any(x[0] == "c" for o in obs["ops"] for x in o["out"]):
            return None
        return core.sha(c["ops"])

    def sample(self, c, obs):
        return {"history_prefix": c["ops"][:8], "operations": len(c["ops"]),
                "deliveries_prefix": [o["out"] for o in obs.get("ops", [])[:8]]}

    def histogram(self, cases, obs):
        h = {"state_histories": sum(1 for c in cases if c["label"] == "state"),
             "random_histories": sum(1 for c in cases if c["label"] == "random"),
             "operations": sum(len(c["ops"]) for c in cases)}
        for c in cases:
            for o in c["ops"]:
                if o[0] == "send" and o[2]["kind"] == "enableBLOB":
                    h["enableBLOB:" + str(o[2]["value"])] = h.get("enableBLOB:" + str(o[2]["value"]), 0) + 1
        return h


PROP = C05()
