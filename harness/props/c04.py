import itertools

from harness import core, msggen, routergen as rg


class C04(core.Prop):
    id = "C04"
    prop_file = "C04.v"
    impl_module = "router"
    entry = "router"
    correspondence = "Router.process_message (real Driver.accepts, catch-all device, recording clients) vs Router.Model.step"
    uses_registry = True
    rule = ("one case = one router history: a set-up reaching one state of the bounded universe (every subset of devices "
            "{A, B, catch-all} x every subset of 3 clients, some with BLOB policies set) followed by every send "
            "(client-originated kind x device name {A,B,none,unknown} x sender {none, each client, each device}); plus random "
            "longer histories with double/re-registration in a larger universe; non-trivial = history with at least one "
            "send that must be delivered to someone, distinct by content")
    assumptions = ["endpoints are compared by identity (==), as the router does",
                   "direction flags of the model are the protocol's table (Msg.RegOk.spec_flags); reg_ok_router ties the live classes to it"]

    def sends(self, rng, senders, kinds):
        out = []
        for k in kinds:
            for dev in ("A", "B", None, "unknown"):
                m = rg.mk_msg(rng, k, dev)
                if m is None:
                    continue
                for s in senders:
                    out.append(["send", s, m])
        return out

    def gen(self, rng, tier):
        cases = []
        devs = [("A", 10), ("B", 11), (None, 12)]
        for dsub in itertools.chain.from_iterable(itertools.combinations(devs, r) for r in range(4)):
            for csub in itertools.chain.from_iterable(itertools.combinations(rg.CLIENT_IDS, r) for r in range(4)):
                ops = [["regdev", i, n] for n, i in dsub] + [["regcl", c] for c in csub]
                for c in csub:
                    if rng.random() < 0.4:
                        ops.append(["send", c, rg.mk_msg(rng, "enableBLOB", rng.choice(["A", "B"]), rng.choice(msggen.BLOBEN))])
                senders = [None] + list(csub) + [i for n, i in dsub] + ([3] if 3 not in csub else [])
                ops += self.sends(rng, senders, rg.CLIENT_KINDS)
                cases.append({"label": "state", "ops": ops})
        n_rand = 150 if tier == "quick" else 4000
        for _ in range(n_rand):
            cases.append({"label": "random", "ops": random_history(rng, 40, rg.CLIENT_KINDS + ["defTextVector", "setBLOBVector"])})
        return cases

    def model_input(self, c):
        return [rg.model_op(o) for o in c["ops"]]

    def compare(self, c, obs, mout):
        return rg.compare(c, obs, mout, "devices")

    def oracle(self, c, obs):
        return rg.judge(c, obs, "devices")

    def nontrivial(self, c, obs):
        if obs["status"] != "ok" or not any(o["out"] for o in obs["ops"]):
            return None
        return core.sha(c["ops"])

    def sample(self, c, obs):
        return {"history_prefix": c["ops"][:6], "operations": len(c["ops"]),
                "deliveries_prefix": [o["out"] for o in obs.get("ops", [])[:6]]}

    def histogram(self, cases, obs):
        h = {"state_histories": sum(1 for c in cases if c["label"] == "state"),
             "random_histories": sum(1 for c in cases if c["label"] == "random"),
             "operations": sum(len(c["ops"]) for c in cases)}
        for c in cases:
            for o in c["ops"]:
                if o[0] == "send":
                    h["send:" + o[2]["kind"]] = h.get("send:" + o[2]["kind"], 0) + 1
        return h


def random_history(rng, n, kinds):
    ops = []
    dev_ids = {"A": 10, "B": 11, "C": 13, "D": 14, None: 12}
    registered_dev = set()
    for _ in range(n):
        r = rng.random()
        if r < 0.12 and len(registered_dev) < 5:
            name = rng.choice([k for k in dev_ids if k not in registered_dev])
            registered_dev.add(name)
            ops.append(["regdev", dev_ids[name], name])
        elif r < 0.27:
            ops.append(["regcl", rng.randint(1, 5)])
        elif r < 0.37:
            ops.append(["unreg", rng.randint(1, 5)])
        else:
            k = rng.choice(kinds)
            m = None
            while m is None:
                m = rg.mk_msg(rng, k, rng.choice(["A", "B", "C", None, "unknown"]),
                              rng.choice(msggen.BLOBEN))
            sender = rng.choice([None, 1, 2, 3, 4, 5, 10, 11, 12])
            ops.append(["send", sender, m])
    return ops


PROP = C04()
