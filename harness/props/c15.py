from harness import core, msggen, xmlgen, bufgen, clientgen


def latin(s):
    return "".join(ch if ord(ch) < 256 else "&#%d;" % ord(ch) for ch in s)


class C15(core.Prop):
    id = "C15"
    prop_file = "C15.v"
    impl_module = "client"
    entry = "client"
    correspondence = ("BaseClient.process_message (direct, re-parsed from the wire, through the library's own TCP.connect (socket replaced by a pipe) and its connection handler with arbitrary "
                      "fragmentation, and a SnoopingClient on a router) vs Client.Model.apply")
    rule = ("streams of def*/set*/delProperty/message/ping over 2 devices x 3 properties x 3 elements (redefinition, partial updates, kind "
            "mismatches, unknown targets, empty/absent/mis-sized/non-base64 BLOB payloads, duplicate children, whole-device deletion), "
            "delivered as objects, re-parsed from their serialisation, in foreign spellings through the network handler in random pieces (image updates of up to 6 KB on the BLOB connection), or via "
            "a router to a snooping client; non-trivial = stream with at least one accepted definition; distinct by content")
    assumptions = ["the public view (list_devices / list_vectors / list_elements, .state/.label/.group/.value) is compared, dict order included"]

    def gen(self, rng, tier):
        cases = []
        for _ in range(400 if tier == "quick" else 12000):
            stream = clientgen.gen_stream(rng, rng.randint(3, 25))
            mode = rng.choice(["direct", "direct", "wire", "tcp", "tcp", "snoop"])
            ops = [["recv", m] for m in stream]
            c = {"mode": "direct" if mode == "wire" else mode, "ops": ops, "stream": stream}
            if mode == "wire":
                for o in ops:
                    o[1] = dict(o[1], via="wire")
            if mode == "tcp":
                c["for_blobs"] = rng.random() < 0.3
                if c["for_blobs"]:
                    # the BLOB connection has no threshold: an image of any size arrives, in whatever pieces
                    import base64
                    for m in stream:
                        if m["kind"] == "setBLOBVector":
                            for ch in m.get("children") or []:
                                if ch.get("value") == "QUJD" and ch["attrs"].get("size") == "3" and rng.random() < 0.6:
                                    n = rng.choice([1500, 1600, 3000, 6100])
                                    ch["value"] = base64.b64encode(bytes((7 * i + n) % 251 for i in range(n))).decode()
                                    ch["attrs"]["size"] = str(n)
                text = ""
                for m in stream:
                    text += latin(xmlgen.document(rng, xmlgen.msg_tree(m), rng.choice(xmlgen.STYLES), decl=rng.choice(["", '<?xml version="1.0"?>\n'])))
                c["pieces"] = [p for p in bufgen.cuts(rng, text, rng.choice(["cuts", "chars", "whole", rng.randint(2, 9)])) if p]
            cases.append(c)
        return cases

    def seen(self, c):
        # a snooping client announces enableBLOB Never: the router withholds BLOB updates from it (C05)
        return [m for m in c["stream"] if not (c["mode"] == "snoop" and m["kind"] == "setBLOBVector")]

    def model_input(self, c):
        wire = c["mode"] == "tcp" or any(o[1].get("via") for o in c["ops"])
        return [["recv", msggen.sx_msg(msggen.norm(m) if wire else m)] for m in self.seen(c)]

    def expected_view(self, c):
        view = {}
        for m in self.seen(c):
            clientgen.ref_apply(view, msggen.norm(m) if (c["mode"] == "tcp" or any(o[1].get("via") for o in c["ops"])) else m)
        return clientgen.view_list(view)

    def compare(self, c, obs, mout):
        if obs["status"] != "ok":
            return "implementation %s %s" % (obs["status"], obs.get("detail", ""))
        if not isinstance(mout, list):
            return "model rejected the input"
        dls, sents, mirror, cbs = mout
        if obs.get("stopped"):
            return "the receive loop stopped: %s" % obs["stopped"]
        if obs["ops"] is not None:
            for k, o in enumerate(obs["ops"]):
                if o["raised"]:
                    return "message %d (%s) raised %s" % (k, c["stream"][k]["kind"], o["raised"])
        mm = clientgen.model_mirror(mirror)
        if mm != obs["view"]:
            return "final view differs: impl %s model %s" % (str(obs["view"])[:300], str(mm)[:300])
        return None

    def oracle(self, c, obs):
        if obs["status"] != "ok":
            return "crashed: %s %s" % (obs["status"], obs.get("detail", ""))
        if obs.get("stopped"):
            return "receive-loop-stopped: processing the stream ended the client's receive loop with %s" % obs["stopped"]
        if obs["ops"] is not None:
            for k, o in enumerate(obs["ops"]):
                if o["raised"]:
                    return "raised: processing a %s raised %s" % (c["stream"][k]["kind"], o["raised"])
        exp = self.expected_view(c)
        if obs["view"] != exp:
            got, want = obs["view"], exp
            return "view: after the stream the client shows %s, applying the messages in order gives %s (%s)" % (
                str(got)[:260], str(want)[:260], c["mode"])
        return None

    def nontrivial(self, c, obs):
        return core.sha([c["mode"], c["stream"], c.get("pieces")]) if any(m["kind"].startswith("def") for m in c["stream"]) else None

    def histogram(self, cases, obs):
        h = {}
        for c in cases:
            h["mode:" + c["mode"]] = h.get("mode:" + c["mode"], 0) + 1
            for m in c["stream"]:
                h[m["kind"]] = h.get(m["kind"], 0) + 1
        return h

    def sample(self, c, obs):
        return {"mode": c["mode"], "stream": [m["kind"] + ":" + str(m["attrs"].get("device")) + "/" + str(m["attrs"].get("name")) for m in c["stream"]][:10],
                "view": obs.get("view")}


PROP = C15()
