from harness import core, msggen, drvgen, drvcmp, xmlgen

GETP = '<getProperties version="1.7" device="%s"/>'


def xml_of(m):
    return xmlgen.spell(None, xmlgen.msg_tree(m), {"quote": '"', "selfclose": "space"})


def latin(s):
    return "".join(ch if ord(ch) < 256 else "&#%d;" % ord(ch) for ch in s)


def catalogue(rng, defn, vname):
    """hostile-but-well-formed texts aimed at vector vname: list of (label, xml, allowed changes [(vector, element index)])"""
    vecs = drvgen.all_vectors(defn)
    g, v = vecs[vname]
    K = v["kind"]
    dev = defn["name"]
    out = []
    if K == "Light":
        for K2 in ("Text", "Switch", "Number"):
            m = {"kind": "new%sVector" % K2, "attrs": {"device": dev, "name": vname}, "value": None,
                 "children": [{"kind": "one" + K2, "attrs": {"name": v["elements"][0]["name"]},
                               "value": {"Text": "x", "Switch": "On", "Number": "1"}[K2]}]}
            out.append(("write-to-light:" + K2, xml_of(m), []))
        m = {"kind": "newTextVector", "attrs": {"device": dev, "name": vname}, "value": None, "children": []}
        out.append(("write-to-light:no-children", xml_of(m), []))
        return out
    good = drvgen.new_message(rng, defn, vname)
    idx_of = {e["name"]: i for i, e in enumerate(v["elements"])}
    for label, other in (("unknown-device", "NOPE"), ("empty-device-name", ""), ("device-name-with-blank", dev + " "),
                         ("device-name-other-case", dev.lower() if dev.lower() != dev else dev.upper()), ("device-name-prefix", dev[:-1])):
        m = drvgen.msggen.clone(good)
        m["attrs"]["device"] = other
        out.append((label, xml_of(m), []))
    m = drvgen.msggen.clone(good)
    m["attrs"]["name"] = "NOPE"
    out.append(("unknown-property", xml_of(m), []))
    m = drvgen.msggen.clone(good)
    for ch in m["children"]:
        ch["attrs"]["name"] = "NOPE_" + ch["attrs"]["name"]
    out.append(("unknown-elements", xml_of(m), []))
    m = drvgen.msggen.clone(good)
    extra = drvgen.msggen.clone(good)["children"][0]
    extra["attrs"]["name"] = "GHOST"
    m["children"].insert(0, extra)
    out.append(("unknown-element-among-valid", xml_of(m), [(vname, idx_of[c["attrs"]["name"]]) for c in good["children"]]))
    for K2 in ("Text", "Number", "Switch", "BLOB"):
        if K2 == K:
            continue
        other = {"Text": {"kind": "oneText", "attrs": {"name": v["elements"][0]["name"]}, "value": "x"},
                 "Number": {"kind": "oneNumber", "attrs": {"name": v["elements"][0]["name"]}, "value": "1.5"},
                 "Switch": {"kind": "oneSwitch", "attrs": {"name": v["elements"][0]["name"]}, "value": "On"},
                 "BLOB": {"kind": "oneBLOB", "attrs": {"name": v["elements"][0]["name"], "size": "3", "format": ".x"}, "value": "QUJD"}}[K2]
        m = {"kind": "new%sVector" % K2, "attrs": {"device": dev, "name": vname}, "value": None, "children": [other]}
        out.append(("kind-mismatch:%s->%s" % (K2, K), xml_of(m), []))
    m = drvgen.msggen.clone(good)
    m["children"] = []
    out.append(("no-children", xml_of(m), []))
    m = drvgen.msggen.clone(good)
    m["children"] = m["children"] + [drvgen.msggen.clone(good)["children"][0]]
    out.append(("duplicate-children", xml_of(m), [(vname, idx_of[c["attrs"]["name"]]) for c in good["children"]]))
    e0 = v["elements"][0]["name"]
    head = '<new%sVector device="%s" name="%s">' % (K, dev, vname)
    tail = '</new%sVector>' % K
    if K == "Switch":
        out.append(("invalid-switch-text", head + '<oneSwitch name="%s">Maybe</oneSwitch>' % e0 + tail, []))
        out.append(("empty-switch", head + '<oneSwitch name="%s"/>' % e0 + tail, []))
    if K == "Number":
        out.append(("unparsable-number", head + '<oneNumber name="%s">abc</oneNumber>' % e0 + tail, []))
        out.append(("empty-number", head + '<oneNumber name="%s"/>' % e0 + tail, []))
        out.append(("odd-number", head + '<oneNumber name="%s">1:2:3:4</oneNumber>' % e0 + tail, []))
    if K == "BLOB":
        out.append(("bad-base64", head + '<oneBLOB name="%s" size="3" format=".x">!!!=</oneBLOB>' % e0 + tail, []))
        out.append(("short-base64", head + '<oneBLOB name="%s" size="3" format=".x">QUJ</oneBLOB>' % e0 + tail, []))
        out.append(("wrong-size", head + '<oneBLOB name="%s" size="99" format=".x">QUJD</oneBLOB>' % e0 + tail, []))
        out.append(("size-not-a-number", head + '<oneBLOB name="%s" size="big" format=".x">QUJD</oneBLOB>' % e0 + tail, []))
        out.append(("missing-size", head + '<oneBLOB name="%s" format=".x">QUJD</oneBLOB>' % e0 + tail, []))
        for sz in ("inf", "-inf", "Infinity", "nan", "1e999", "3.0", "3e0", "-1", "0x3", "99999999999999999999999999", "3 3", ""):
            out.append(("size-spelled-%s" % (sz or "empty"), head + '<oneBLOB name="%s" size="%s" format=".x">QUJD</oneBLOB>' % (e0, sz) + tail, []))
        out.append(("empty-blob-absent-text", head + '<oneBLOB name="%s" size="0" format=".x"/>' % e0 + tail, [(vname, 0)]))
    out.append(("client-sends-def", '<defTextVector device="%s" name="%s" state="Ok" perm="rw"><defText name="%s">spoof</defText></defTextVector>' % (dev, vname, e0), []))
    out.append(("client-sends-set", '<set%sVector device="%s" name="%s" state="Alert"/>' % (K, dev, vname), []))
    out.append(("client-sends-del", '<delProperty device="%s" name="%s"/>' % (dev, vname), []))
    out.append(("client-sends-message", '<message device="%s" message="hi"/>' % dev, []))
    out.append(("getprops-unknown-property", '<getProperties version="1.7" device="%s" name="NOPE"/>' % dev, []))
    out.append(("getprops-unknown-device", '<getProperties version="1.7" device="NOPE"/>', []))
    out.append(("getprops-empty-device", '<getProperties version="1.7" device=""/>', []))
    out.append(("getprops-empty-device-named", '<getProperties version="1.7" device="" name="%s"/>' % vname, []))
    out.append(("known-root-unknown-child", head + '<bogus name="%s">1</bogus>' % e0 + tail, []))
    out.append(("known-root-message-as-child", head + '<getProperties version="1.7"/>' + tail, []))
    out.append(("enableblob-unknown-device", '<enableBLOB device="NOPE">Also</enableBLOB>', []))
    out.append(("enableblob-bad-value", '<enableBLOB device="%s">Sometimes</enableBLOB>' % dev, []))
    out.append(("not-a-message", '<foo bar="1"><baz/></foo>', []))
    out.append(("pingreply", '<pingReply uid="zz"/>', []))
    out.append(("bad-state-in-new", '<new%sVector device="%s" name="%s" state="Bogus"/>' % (K, dev, vname), []))
    return out


class C12(core.Prop):
    id = "C12"
    prop_file = "C12.v"
    impl_module = "c12"
    entry = "driver"
    correspondence = ("sessions of client traffic through the real TCP handler, TTY handler and direct router calls vs Driver.Model.run on the "
                      "messages the model's own parser accepts")
    uses_registry = True
    rule = ("fault catalogue (unknown device / property / element, kind mismatch for every pair of kinds, writes to light properties, invalid "
            "switch / number / base64 text, wrong, non-numeric, infinite, fractional, negative, huge or missing BLOB size, no children, duplicate children, def/set/del/message sent by "
            "a client, unknown getProperties / enableBLOB targets, non-message elements) x every target vector kind x every position in a session "
            "of valid traffic x transport {TCP handler, TTY handler, direct router call}; non-trivial = session containing a hostile message; "
            "distinct by (transport, texts)")
    assumptions = ["one message per read, or the hostile message and the next one in a single read framed as to_string frames them (fragmentation is C02's subject)", "the observing second client has enabled BLOBs (policy Also)"]
    per_case_timeout = 10

    def gen(self, rng, tier):
        cases = []
        n = 6 if tier == "quick" else 60
        for _ in range(n):
            defn = drvgen.gen_definition(rng, "HOST", depth=rng.randint(1, 2))
            for g in drvgen.effective_groups(defn):
                for v in g["vectors"]:
                    for e in v["elements"]:
                        e["enabled"] = True
            vecs = drvgen.all_vectors(defn)
            kinds = {}
            for vn, (g, v) in vecs.items():
                kinds.setdefault(v["kind"], vn)
            writable = [vn for vn, (g, v) in vecs.items() if v["kind"] != "Light"]
            if not writable:
                continue
            for kind, vname in sorted(kinds.items()):
                for label, text, allowed in catalogue(rng, defn, vname):
                    valid = []
                    for _ in range(2):
                        wv = rng.choice(writable)
                        m = drvgen.new_message(rng, defn, wv)
                        idx = {e["name"]: i for i, e in enumerate(vecs[wv][1]["elements"])}
                        valid.append((xml_of(m), [(wv, idx[c["attrs"]["name"]]) for c in m["children"]]))
                    base = [(GETP % defn["name"], []), valid[0], valid[1], (GETP % defn["name"], [])]
                    positions = range(len(base) + 1) if tier == "thorough" else [rng.randrange(len(base) + 1)]
                    for pos in positions:
                        seq = base[:pos] + [(text, allowed)] + base[pos:]
                        for tr in (["tcp", "tty", "direct"] if tier == "thorough" else [rng.choice(["tcp", "tty", "direct"])]):
                            cases.append({"label": label, "defn": defn, "transport": tr, "target": vname,
                                          "texts": [latin(t) for t, _ in seq], "allowed": [a for _, a in seq], "hostile_at": pos})
                            if tr == "tcp" and pos + 1 < len(seq):
                                # the same session with the hostile message and the valid one behind it in a single read
                                cases.append(dict(cases[-1], coalesce=pos))
        # what the model's own parser makes of every text
        texts = sorted({t for c in cases for t in c["texts"]})
        res, err = core.run_model("fromstring", texts)
        parsed = {t: (r[1][0] if isinstance(r, list) and r[1] else None) for t, r in zip(texts, res or [])}
        for c in cases:
            c["parsed"] = [parsed.get(t) for t in c["texts"]]
        return cases

    def model_ops(self, c):
        ops, index = [], []
        for i, pm in enumerate(c["parsed"]):
            if pm is None:
                continue
            kind, attrs = pm[0], dict((k, v) for k, v in pm[1])
            if kind not in msggen.FROM_CLIENT:
                continue
            if attrs.get("device") is not None and attrs.get("device") != c["defn"]["name"]:
                continue
            ops.append(["client", pm])
            index.append(i)
        return ops, index

    def model_input(self, c):
        ops, _ = self.model_ops(c)
        return [drvgen.enc_dev(c["defn"]), ops]

    def compare(self, c, obs, mout):
        if obs["status"] != "ok":
            return "implementation %s %s" % (obs["status"], obs.get("detail", ""))
        if not isinstance(mout, list):
            return "model rejected the input"
        traces, st, allwf = mout
        ops, index = self.model_ops(c)
        if len(obs["steps"]) != len(c["texts"]):
            return "the %s transport stopped after %d of %d messages" % (c["transport"], len(obs["steps"]), len(c["texts"]))
        per_step = {i: tr for i, tr in zip(index, traces)}
        co = c.get("coalesce")
        for i, step in enumerate(obs["steps"]):
            want = [e[1] for e in drvcmp.model_trace(per_step.get(i, []))[0] if e[0] == "pub"]
            got = [v for v in step["seen"] if v["attrs"].get("device") == c["defn"]["name"] and not self.relayed(c, i, v)]
            if co is not None and i == co:
                # both messages of the coalesced read are handled before the next read: their effects show together
                want += [e[1] for e in drvcmp.model_trace(per_step.get(i + 1, []))[0] if e[0] == "pub"]
                got = [v for v in step["seen"] if v["attrs"].get("device") == c["defn"]["name"]]
                for j in (i, i + 1):
                    # what a client sent is relayed to the observer once: take that one copy out, not the device's own messages of that kind
                    for k, v in enumerate(got):
                        if self.relayed(c, j, v):
                            del got[k]
                            break
            elif co is not None and i == co + 1:
                want = []
            if got != want:
                return "step %d (%s): device published %s, model %s" % (i, c["label"] if i == c["hostile_at"] else "valid",
                                                                          [v["kind"] for v in got], [v["kind"] for v in want])
        if drvcmp.model_state(st) != obs["steps"][-1]["state"]:
            return "final device state differs from the model's"
        return None

    def relayed(self, c, i, v):
        """messages a client sent that the router relays to other clients (def/set/del/message spoofed by the sender)"""
        pm = c["parsed"][i]
        return pm is not None and pm[0] in msggen.FROM_DEVICE and v["kind"] == pm[0]

    def oracle(self, c, obs):
        if obs["status"] != "ok":
            return "crashed: %s %s" % (obs["status"], obs.get("detail", ""))
        where = c["transport"]
        if len(obs["steps"]) < len(c["texts"]):
            return "connection-lost: the %s connection stopped serving after message %d of %d (%s)" % (where, len(obs["steps"]), len(c["texts"]), c["label"])
        prev = None
        for i, step in enumerate(obs["steps"]):
            what = c["label"] if i == c["hostile_at"] else "valid message"
            if step["raised"]:
                return "raised: %s raised %s out of message handling (%s)" % (what, step["raised"], where)
            if not step["alive"]:
                return "connection-closed: after %s the %s connection is closed or unregistered" % (what, where)
            if i == c["hostile_at"] and c["label"] == "getprops-unknown-property" and c.get("coalesce") != i and \
                    any(v["kind"].startswith(("def", "set", "del")) for v in step["seen"]):
                return "not-ignored: a getProperties naming a property the device does not have made it publish %s" % (
                    [v["kind"] for v in step["seen"]][:6],)
            if prev is not None:
                allowed = set(tuple(a) for a in c["allowed"][i])
                if c.get("coalesce") == i:
                    allowed |= set(tuple(a) for a in c["allowed"][i + 1])
                vk = {vn: gv[1] for vn, gv in drvgen.all_vectors(c["defn"]).items()}
                for vn, _ in list(allowed):      # a switch write may flip its siblings through the rule
                    if vk[vn]["kind"] == "Switch":
                        allowed |= {(vn, k) for k in range(len(vk[vn]["elements"]))}
                for g0, g1 in zip(prev, step["state"]):
                    for v0, v1 in zip(g0[2], g1[2]):
                        if v0[:3] != v1[:3]:
                            return "state-changed: %s changed flags/state of %s" % (what, v0[0])
                        for k, (e0, e1) in enumerate(zip(v0[3], v1[3])):
                            if e0 != e1 and (v0[0], k) not in allowed:
                                return "state-changed: %s changed element %d of %s, which it does not validly name" % (what, k, v0[0])
            prev = step["state"]
        last = len(c["texts"]) - 1
        defs = [v for v in obs["steps"][last]["seen"] if v["kind"].startswith("def")] if c["hostile_at"] != last + 0 else None
        at = last - 1 if c.get("coalesce") == last - 1 else last     # a coalesced read shows both messages' effects in its own step
        if c["hostile_at"] != last and not [v for v in obs["steps"][at]["seen"]]:
            return "not-served: the final getProperties on the same connection got no reply (%s)" % where
        return None

    def nontrivial(self, c, obs):
        return core.sha([c["transport"], c["texts"]])

    def histogram(self, cases, obs):
        h = {}
        for c in cases:
            k = c["label"].split(":")[0]
            h[k] = h.get(k, 0) + 1
            h["transport:" + c["transport"]] = h.get("transport:" + c["transport"], 0) + 1
        h["texts_the_parser_rejects"] = sum(1 for c in cases if c["parsed"][c["hostile_at"]] is None)
        return h

    def sample(self, c, obs):
        return {"label": c["label"], "transport": c["transport"], "hostile": c["texts"][c["hostile_at"]][:160], "position": c["hostile_at"]}


PROP = C12()
