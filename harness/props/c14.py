from harness import core, msggen, drvgen, drvcmp


def elements_of(defn):
    for g in drvgen.effective_groups(defn):
        for v in g["vectors"]:
            for i, e in enumerate(v["elements"]):
                yield g, v, i, e


def collapse_blob_reads(defn, trace):
    """The library reads the value of a BLOB element up to four times while it builds one update, raising the Read
    event each time.  The property asks that Read handlers run before the value is published, not how often: a run
    of invocations of one BLOB element's plain Read handlers that is a whole number of repetitions of that
    element's handler list counts as one."""
    owner, base = {}, {}
    for g, v, i, e in elements_of(defn):
        if v["kind"] != "BLOB":
            continue
        ids = [h["id"] for h in e["handlers"] if h["event"] == "read" and not h.get("coro")]
        for h in ids:
            owner[h] = (v["name"], i)
        base[(v["name"], i)] = ids
    out, k = [], 0
    while k < len(trace):
        e = trace[k]
        if e[0] == "call" and e[1] in owner:
            el = owner[e[1]]
            j = k
            while j < len(trace) and trace[j][0] == "call" and owner.get(trace[j][1]) == el:
                j += 1
            run, b = trace[k:j], base[el]
            if b and len(run) % len(b) == 0 and [x[1] for x in run] == b * (len(run) // len(b)):
                out.extend(run[:len(b)])
            else:
                out.extend(run)
            k = j
        else:
            out.append(e)
            k += 1
    return out


def refreshed_value(e):
    """what the plain Read handlers of element e leave as its value (None: they do not refresh it)"""
    val = None
    for h in e["handlers"]:
        if h["event"] == "read" and not h.get("coro") and h.get("refresh") is not None:
            val = h["refresh"]
    return val


class C14(core.Prop):
    id = "C14"
    prop_file = "C14.v"
    impl_module = "driver"
    entry = "driver"
    correspondence = "generated drivers with @on(...) handlers (traces of handler calls and published messages) vs Driver.Model.run"
    rule = ("driver definitions with 0-2 handlers per event kind and element (plain / coroutine, vetoing Write handlers, refreshing Read handlers, "
            "one handler on several elements), all element kinds x sequences of client writes, set_value() and direct assignments with changing "
            "and unchanged values, getProperties (reads); non-trivial = sequence in which at least one handler fired; distinct by content")
    assumptions = ["Read handlers of BLOB elements are plain ones, and their repeated invocation within one update counts as one (the library reads a BLOB value several times per update)",
                   "client writes name one element each, so one Write event per operation"]

    def gen(self, rng, tier):
        cases = []
        for _ in range(300 if tier == "quick" else 8000):
            defn = drvgen.gen_definition(rng, "EVT", depth=1)
            hid = [0]
            for g, v, i, e in elements_of(defn):
                e["enabled"] = True if rng.random() < 0.9 else e["enabled"]
                for ev in ("write", "read", "change"):
                    for _ in range(rng.choice([0, 0, 1, 1, 2])):
                        hid[0] += 1
                        h = {"id": hid[0], "event": ev, "coro": rng.random() < 0.35}
                        if ev == "read" and v["kind"] == "BLOB":
                            h["coro"] = False     # the library reads a BLOB value several times per update: plain handlers only
                        if ev == "write" and not h["coro"] and rng.random() < 0.3:
                            h["veto"] = True
                        if ev == "read" and not h["coro"] and v["kind"] in ("Text", "Number", "Light", "BLOB") and rng.random() < (0.5 if v["kind"] == "BLOB" else 0.3):
                            h["refresh"] = drvgen.random_value(rng, v["kind"])
                            if v["kind"] == "BLOB" and h["refresh"] is None:
                                h["refresh"] = [[1, 2, 3, rng.randrange(256)], ".r%d" % hid[0]]
                        e["handlers"].append(h)
            vecs = drvgen.all_vectors(defn)
            ops = []
            for _ in range(rng.randint(3, 10)):
                vname = rng.choice(sorted(vecs))
                g, v = vecs[vname]
                i = rng.randrange(len(v["elements"]))
                kind = v["kind"]
                x = drvgen.random_value(rng, kind)
                r = rng.random()
                if kind == "Switch" and r < 0.3 and rng.random() < 0.5:
                    # the other driver-side ways of assigning a switch: bool_value and the vector's selected_values
                    reads = any(h["event"] == "read" for e in v["elements"] for h in e["handlers"])
                    if rng.random() < 0.5 or reads:
                        # (selected_values first reads the current selection; the model of that setter has no Read events)
                        ops.append(["assign", vname, i, rng.random() < 0.5])
                    else:
                        ops.append(["selected", vname, sorted(rng.sample(range(len(v["elements"])), rng.randint(0, len(v["elements"]))))])
                elif r < 0.3:
                    ops.append(["assign", vname, i, x])
                    if rng.random() < 0.4:
                        ops.append(["assign", vname, i, x])          # unchanged value
                elif r < 0.55:
                    ops.append(["setvalue", vname, i, x])
                    if rng.random() < 0.4:
                        ops.append(["setvalue", vname, i, x])
                elif r < 0.85 and kind != "Light":
                    m = drvgen.new_message(rng, defn, vname, subset=[i])
                    ops.append(["client", m])
                    if rng.random() < 0.4:
                        ops.append(["client", m])
                elif r < 0.93:
                    ops.append(["client", {"kind": "getProperties", "attrs": {"version": "1.7"}, "value": None, "children": None}])
                else:
                    ops.append(rng.choice([["envec", vname, rng.random() < 0.5], ["state", vname, rng.choice(msggen.STATES)]]))
            cases.append({"defn": defn, "ops": ops})
        return cases

    def model_input(self, c):
        return [drvgen.enc_dev(c["defn"]), [drvgen.enc_op(c["defn"], o) for o in c["ops"]]]

    def compare(self, c, obs, mout):
        if obs["status"] != "ok":
            return "implementation %s %s" % (obs["status"], obs.get("detail", ""))
        if not isinstance(mout, list):
            return "model rejected the input"
        traces, st, allwf = mout
        d = drvcmp.compare_ops(c["ops"], [dict(o, trace=collapse_blob_reads(c["defn"], o["trace"])) for o in obs["ops"]], traces)
        if d:
            return d
        if drvcmp.model_state(st) != obs["state"]:
            return "final state differs"
        return None

    def oracle(self, c, obs):
        """the contract of the property text, judged on the implementation's own trace"""
        if obs["status"] != "ok":
            return "crashed: %s %s" % (obs["status"], obs.get("detail", ""))
        vecs = drvgen.all_vectors(c["defn"])
        # current values, tracked from the implementation's own snapshots
        prev_state = None
        for k, (op, o) in enumerate(zip(c["ops"], obs["ops"])):
            if o["raised"]:
                return "raised: %s raised %s" % (op[0], o["raised"])
            sync, after = o["trace"], o["after"]
            if any(e[0] == "ran" for e in sync):
                return "coroutine-ran-early: a coroutine handler ran before the operation returned"
            why = self.read_before_publication(vecs, sync)
            if why:
                return why
            target = None
            if op[0] in ("assign", "setvalue"):
                target = (op[1], op[2], drvgen.canon_value(vecs[op[1]][1]["kind"], drvimpl_value(vecs[op[1]][1]["kind"], op[3])))
            elif op[0] == "client" and op[1]["kind"].startswith("new"):
                vname = op[1]["attrs"]["name"]
                ch = op[1]["children"][0]
                idx = [e["name"] for e in vecs[vname][1]["elements"]].index(ch["attrs"]["name"])
                target = (vname, idx, None)
            if target and prev_state is not None:
                vname, idx, want = target
                g, v = vecs[vname]
                e = v["elements"][idx]
                hs = e["handlers"]
                is_write = op[0] != "assign"
                wplain = [h["id"] for h in hs if h["event"] == "write" and not h.get("coro")]
                wcoro = [h["id"] for h in hs if h["event"] == "write" and h.get("coro")]
                cplain = [h["id"] for h in hs if h["event"] == "change" and not h.get("coro")]
                ccoro = [h["id"] for h in hs if h["event"] == "change" and h.get("coro")]
                veto = is_write and any(h.get("veto") for h in hs if h["event"] == "write" and not h.get("coro"))
                calls = [e2 for e2 in sync if e2[0] == "call"]
                pubs_at = [j for j, e2 in enumerate(sync) if e2[0] == "pub"]
                wcalls = [e2[1] for e2 in calls if e2[1] in wplain]
                if is_write:
                    if sorted(wcalls) != sorted(wplain):
                        return "write-once: plain Write handlers %s invoked %s" % (wplain, wcalls)
                    first_pub = pubs_at[0] if pubs_at else len(sync)
                    for j, e2 in enumerate(sync):
                        if e2[0] == "call" and e2[1] in wplain and j > first_pub:
                            return "write-order: a Write handler ran after publication"
                    ran = [e2[1] for e2 in after if e2[0] == "ran" and e2[1] in wcoro]
                    if sorted(ran) != sorted(wcoro):
                        return "write-coroutine: coroutine Write handlers %s ran %s" % (wcoro, ran)
                elif wcalls or [e2 for e2 in after if e2[0] == "ran" and e2[1] in wcoro]:
                    return "assign-raises-write: a driver-side assignment raised a Write event"
                old = elem_value(prev_state, vname, idx)
                new = elem_value(o["state"], vname, idx)
                en = vec_enabled(prev_state, vname)
                set_pubs = [e2 for e2 in sync if e2[0] == "pub" and e2[1]["kind"].startswith("set") and e2[1]["attrs"].get("name") == vname]
                ch_calls = [e2 for e2 in calls if e2[1] in cplain]
                ch_ran = [e2 for e2 in after if e2[0] == "ran" and e2[1] in ccoro]
                if veto:
                    if new != old:
                        return "veto-ignored: a vetoed write changed the value"
                    if (op[0] == "setvalue" or len(op[1]["children"]) == 1) and vec_values(prev_state, vname) != vec_values(o["state"], vname):
                        return "veto-ignored: a vetoed write changed other elements of the property (%s -> %s)" % (
                            vec_values(prev_state, vname), vec_values(o["state"], vname))
                    if set_pubs:
                        return "veto-ignored: a vetoed write published an update"
                    if ch_calls or ch_ran:
                        return "veto-ignored: a vetoed write raised Change"
                else:
                    if len(set_pubs) != (1 if en else 0):
                        return "publish-count: %d updates published for a write to an %s property" % (len(set_pubs), "enabled" if en else "disabled")
                    changed = new != old
                    if changed:
                        if sorted(e2[1] for e2 in ch_calls) != sorted(cplain) or sorted(e2[1] for e2 in ch_ran) != sorted(ccoro):
                            return "change-once: the value changed but Change handlers %s/%s were invoked %s/%s" % (
                                cplain, ccoro, [e2[1] for e2 in ch_calls], [e2[1] for e2 in ch_ran])
                        for e2 in ch_calls:
                            if e2[2] != old or e2[3] != new:
                                return "change-args: Change carried (%s, %s), the value went %s -> %s" % (e2[2], e2[3], old, new)
                    elif ch_calls or ch_ran:
                        return "change-spurious: Change raised although the value did not change"
            prev_state = o["state"]
        return None

    def read_before_publication(self, vecs, sync):
        """an update lists, for every element whose plain Read handlers refresh it, the refreshed value - and those
        handlers have run before it (text, light and BLOB elements; numbers are rendered, see C10)"""
        import base64
        seen = set()
        for e2 in sync:
            if e2[0] == "call":
                seen.add(e2[1])
            if e2[0] != "pub" or not e2[1]["kind"].startswith("set"):
                continue
            vname = e2[1]["attrs"].get("name")
            if vname not in vecs:
                continue
            g, v = vecs[vname]
            if v["kind"] not in ("Text", "Light", "BLOB"):
                continue
            listed = {c["attrs"].get("name"): c for c in (e2[1]["children"] or [])}
            for e in v["elements"]:
                val = refreshed_value(e)
                if val is None or e["name"] not in listed:
                    continue
                ch = listed[e["name"]]
                hs = [h["id"] for h in e["handlers"] if h["event"] == "read" and not h.get("coro")]
                if not set(hs) <= seen:
                    return "read-late: %s.%s was published before its Read handlers %s had run" % (vname, e["name"], hs)
                if v["kind"] == "BLOB":
                    got = (ch["value"] or "", ch["attrs"].get("format"), ch["attrs"].get("size"))
                    want = (base64.b64encode(bytes(val[0])).decode(), val[1], str(len(val[0])))
                else:
                    got, want = (ch["value"] or "").strip(), (val or "").strip()
                if got != want:
                    return "read-stale: the update lists %s.%s as %s, its Read handler refreshed it to %s" % (vname, e["name"], str(got)[:60], str(want)[:60])
        return None

    def nontrivial(self, c, obs):
        if obs.get("status") == "ok" and any(e[0] in ("call", "ran") for o in obs["ops"] for e in o["trace"] + o["after"]):
            return core.sha(c)
        return None

    def histogram(self, cases, obs):
        h = {"handlers": sum(len(e["handlers"]) for c in cases for _, _, _, e in elements_of(c["defn"])), "ops": sum(len(c["ops"]) for c in cases)}
        for o in obs:
            for op in o.get("ops", []):
                for e in op["trace"] + op["after"]:
                    h[e[0]] = h.get(e[0], 0) + 1
        return h

    def sample(self, c, obs):
        return {"ops": c["ops"][:3], "trace": [o["trace"][:4] for o in obs.get("ops", [])[:3]]}


def drvimpl_value(kind, x):
    class B:
        def __init__(self, b, f):
            self.binary, self.format = bytes(b), f
    if kind == "BLOB" and x is not None:
        return B(x[0], x[1])
    return x


def vec_values(state, vname):
    for g in state:
        for v in g[2]:
            if v[0] == vname:
                return [e[2] for e in v[3]]
    return None


def elem_value(state, vname, idx):
    for g in state:
        for v in g[2]:
            if v[0] == vname:
                return v[3][idx][2]
    return None


def vec_enabled(state, vname):
    for g in state:
        for v in g[2]:
            if v[0] == vname:
                return bool(v[1]) and bool(g[1])
    return False


PROP = C14()
