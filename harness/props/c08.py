from harness import core, drvgen, sysgen
from harness.props.c01 import system_input, compare_system

EDGE_SIZES = [0, 1, 2, 3, 4, 5, 6, 47, 48, 49, 255, 256, 257, 700, 766, 767, 768, 769, 770, 1020, 1023, 1024, 1025, 1028,
              1400, 1450, 1500, 1530, 1535, 1536, 1537, 1540, 2040, 2047, 2048, 2049, 2052, 3000, 3100]
FORMATS = [".fits", "", ".bin", ".z&<q>", ".a b"]


def payload(rng, n):
    mode = rng.random()
    if mode < 0.3:
        return [(i * 7 + n) % 256 for i in range(n)]
    if mode < 0.4:
        return [rng.choice([0, 255, 10, 13, 60, 62, 38]) for _ in range(n)]
    return [rng.randrange(256) for _ in range(n)]


def all_on(defn):
    for lv in defn["levels"]:
        for g in lv["groups"]:
            g["enabled"] = True
            for v in g["vectors"]:
                v["enabled"] = True
                for e in v["elements"]:
                    e["enabled"] = True
    return defn


class C08(core.Prop):
    id = "C08"
    prop_file = "C08.v"
    impl_module = "system"
    entry = "system"
    correspondence = ("BLOB publications and uploads through the real driver, router, TCP server connection handlers, fragmenting byte pipes, the "
                      "library's client with control and BLOB connection, vs the composed system model: every device state and client view after every "
                      "operation (not claimed from the first message above the threshold on a threshold-enabled link: known finding K1)")
    rule = ("devices with BLOB and text properties x network clients with the library's default policies (control Never, BLOB connection Only) and "
            "with every other combination {unset, Never, Also, Only} per connection x a snooping client x payload lengths across the 1024-byte read "
            "size and the 2048-character threshold (quick: 39 edge lengths; thorough: every length 0..2300 and 10 KB - 1 MB) x contents (all 256 "
            "byte values, markup bytes, random) x formats incl. markup characters x fragmentation {whole, 1 byte, 1024, random} x direction "
            "(driver -> clients, client -> driver), each followed by ordinary traffic in both directions; the empty payload over a non-empty one and over "
            "nothing, in both directions; non-trivial = a payload arrived somewhere")
    assumptions = ["messages above the 2048-character threshold on threshold-enabled links are known finding K1; the traffic that follows them must still flow"]
    per_case_timeout = 60

    def gen(self, rng, tier):
        cases = []
        sizes = list(EDGE_SIZES)
        if tier == "thorough":
            sizes = list(range(0, 2301)) + [10000, 65536, 100000, 300000, 1048576]
        rng.shuffle(sizes)
        per = 3 if tier == "quick" else 4
        k = 0
        while sizes:
            mine, sizes = sizes[:per], sizes[per:]
            big = max(mine) > 5000
            ndev = rng.randint(1, 2)
            devs = [all_on(drvgen.gen_definition(rng, "DEV%d" % i, depth=rng.randint(1, 2), kinds=["BLOB", "Text"])) for i in range(ndev)]
            frag = lambda: "big" if big else rng.choice(sysgen.FRAGS)
            clients = [{"kind": "net", "up": frag(), "down": frag()}, {"kind": "net", "up": frag(), "down": frag()}]
            if rng.random() < 0.6:
                clients.append({"kind": "snoop"})
            ops = [["handshake", i] for i in range(len(clients))]
            # the second network client uses some other policy combination
            for d in devs:
                ctl, blob = rng.choice([None, "Never", "Also", "Only"]), rng.choice(["Only", "Never", "Also", None])
                if ctl:
                    ops.append(["enable", 1, "ctl", d["name"], ctl])
                if blob:
                    ops.append(["enable", 1, "blob", d["name"], blob])
            for n in mine:
                di = rng.randrange(ndev)
                vecs = drvgen.all_vectors(devs[di])
                bl = [vn for vn in sorted(vecs) if vecs[vn][1]["kind"] == "BLOB"]
                tx = [vn for vn in sorted(vecs) if vecs[vn][1]["kind"] == "Text"]
                if not bl:
                    continue
                vn = rng.choice(bl)
                g, v = vecs[vn]
                i = rng.randrange(len(v["elements"]))
                fmt = rng.choice(FORMATS)
                if rng.random() < 0.55:
                    ops.append(["drv", di, ["assign", vn, i, [payload(rng, n), fmt]]])
                else:
                    ops.append(["write", rng.choice([0, 0, 1]), devs[di]["name"], vn, [[v["elements"][i]["name"], [payload(rng, n), fmt]]]])
                # the traffic that follows, in both directions
                if tx:
                    tv = rng.choice(tx)
                    gt, vt = vecs[tv]
                    j = rng.randrange(len(vt["elements"]))
                    ops.append(["drv", di, ["assign", tv, j, "after-%d-%d" % (n, k)]])
                    ops.append(["write", 0, devs[di]["name"], tv, [[vt["elements"][j]["name"], "reply-%d-%d" % (n, k)]]])
            cases.append({"devices": devs, "clients": clients, "ops": ops, "seed": k, "sizes": mine})
            k += 1
        # the empty payload is a payload: written over a non-empty one and over nothing, in both directions,
        # and a non-empty one after it
        for rep in range(4 if tier == "quick" else 40):
            dev = all_on(drvgen.gen_definition(rng, "DEV0", depth=1, kinds=["BLOB", "Text"]))
            vecs = drvgen.all_vectors(dev)
            bl = [vn for vn in sorted(vecs) if vecs[vn][1]["kind"] == "BLOB"]
            if not bl:
                continue
            vn = rng.choice(bl)
            names = [e["name"] for e in vecs[vn][1]["elements"]]
            i, j = rng.randrange(len(names)), rng.randrange(len(names))
            clients = [{"kind": "net", "up": rng.choice(sysgen.FRAGS), "down": rng.choice(sysgen.FRAGS)},
                       {"kind": "net", "up": rng.choice(sysgen.FRAGS), "down": rng.choice(sysgen.FRAGS)}]
            ops = [["handshake", 0], ["handshake", 1], ["enable", 1, "ctl", dev["name"], "Also"], ["enable", 1, "blob", dev["name"], "Never"]]
            if rep % 2 == 0:
                ops += [["drv", 0, ["assign", vn, i, [payload(rng, 5), ".first"]]],
                        ["drv", 0, ["assign", vn, i, [[], rng.choice(FORMATS)]]],
                        ["drv", 0, ["assign", vn, j, [[], ".e2"]]],
                        ["drv", 0, ["assign", vn, i, [payload(rng, 7), ".last"]]],
                        ["drv", 0, ["assign", vn, i, [[], ""]]]]
            else:
                ops += [["write", 0, dev["name"], vn, [[names[i], [payload(rng, 5), ".first"]]]],
                        ["write", 0, dev["name"], vn, [[names[i], [[], rng.choice(FORMATS)]]]],
                        ["write", 1, dev["name"], vn, [[names[j], [[], ".e2"]]]],
                        ["write", 0, dev["name"], vn, [[names[i], [payload(rng, 7), ".last"]]]],
                        ["write", 1, dev["name"], vn, [[names[i], [[], ""]]]]]
            cases.append({"devices": [dev], "clients": clients, "ops": ops, "seed": k, "sizes": [5, 0, 0, 7, 0]})
            k += 1
        # a connection changes its mind: what it receives follows the policy it set LAST (Also -> Never, Only -> Never, Never -> Also ...)
        for rep in range(4 if tier == "quick" else 40):
            dev = all_on(drvgen.gen_definition(rng, "DEV0", depth=1, kinds=["BLOB", "Text"]))
            vecs = drvgen.all_vectors(dev)
            bl = [vn for vn in sorted(vecs) if vecs[vn][1]["kind"] == "BLOB"]
            if not bl:
                continue
            vn = rng.choice(bl)
            clients = [{"kind": "net", "up": rng.choice(sysgen.FRAGS), "down": rng.choice(sysgen.FRAGS)},
                       {"kind": "net", "up": rng.choice(sysgen.FRAGS), "down": rng.choice(sysgen.FRAGS)}]
            ops = [["handshake", 0], ["handshake", 1]]
            seq = rng.choice([["Also", "Never", "Also"], ["Only", "Never", "Only"], ["Also", "Only", "Never"], ["Never", "Also", "Never"]])
            conn = "ctl" if rep % 2 == 0 else "blob"
            for pol in seq:
                ops.append(["enable", 1, conn, dev["name"], pol])
                ops.append(["drv", 0, ["assign", vn, 0, [payload(rng, rng.choice([3, 40, 300])), ".p%s" % pol]]])
            cases.append({"devices": [dev], "clients": clients, "ops": ops, "seed": k, "sizes": [3, 40, 300]})
            k += 1
        # the last read of a message returns a full 1024 bytes (nothing in the read size says "more is coming")
        for n in ([760, 1500, 3000] if tier == "quick" else [700, 760, 1000, 1500, 2200, 3000, 5000, 20000]):
            dev = all_on(drvgen.gen_definition(rng, "DEV0", depth=1, kinds=["BLOB", "Text"]))
            vecs = drvgen.all_vectors(dev)
            bl = [vn for vn in sorted(vecs) if vecs[vn][1]["kind"] == "BLOB"]
            if not bl:
                continue
            vn = bl[0]
            names = [e["name"] for e in vecs[vn][1]["elements"]]
            clients = [{"kind": "net", "up": "tail1024", "down": "tail1024"}]
            ops = [["handshake", 0],
                   ["drv", 0, ["assign", vn, 0, [payload(rng, n), ".t1"]]],
                   ["write", 0, dev["name"], vn, [[names[-1], [payload(rng, max(1, n // 3)), ".t2"]]]],
                   ["drv", 0, ["assign", vn, 0, [payload(rng, n + 1), ".t3"]]]]
            cases.append({"devices": [dev], "clients": clients, "ops": ops, "seed": k, "sizes": [n, n // 3, n + 1]})
            k += 1
        # two payloads back to back on one connection, the first longer than any transport slice
        for n in ([70000, 200000] if tier == "quick" else [66000, 70000, 131073, 200000, 500000, 1048576]):
            dev = all_on(drvgen.gen_definition(rng, "DEV0", depth=1, kinds=["BLOB"]))
            vecs = drvgen.all_vectors(dev)
            vn = sorted(vecs)[0]
            names = [e["name"] for e in vecs[vn][1]["elements"]]
            clients = [{"kind": "net", "up": "big", "down": "big"}]
            ops = [["handshake", 0],
                   ["burst", [["drv", 0, ["assign", vn, 0, [payload(rng, n), ".big"]]],
                              ["drv", 0, ["assign", vn, len(names) - 1, [payload(rng, 10), ".small"]]]]],
                   ["burst", [["drv", 0, ["assign", vn, 0, [payload(rng, 12), ".s2"]]],
                              ["drv", 0, ["assign", vn, 0, [payload(rng, n + 1), ".b2"]]],
                              ["drv", 0, ["assign", vn, 0, [payload(rng, 3), ".s3"]]]]]]
            cases.append({"devices": [dev], "clients": clients, "ops": ops, "seed": k, "sizes": [n, 10, 12, n + 1, 3]})
            k += 1
        return cases

    def model_input(self, c):
        return system_input(c)

    def compare(self, c, obs, mout):
        return compare_system(c, obs, mout, blob_order="strict")

    def oracle(self, c, obs):
        if obs["status"] != "ok":
            return "stalled: %s %s" % (obs["status"], obs.get("detail", "")) if obs["status"] == "hang" else "%s: %s" % (obs["status"], obs.get("detail", ""))
        found = []
        # policy per (client, connection, device): network clients set control Never / BLOB connection Only when they first see a device
        policy = {}
        shaken = set()
        long_seen = False
        for k, (op, st) in enumerate(zip(c["ops"], obs["steps"])):
            prev = obs["steps"][k - 1] if k else None
            here = []
            if st["raised"] and not (op[0] == "write" and st["raised"].startswith("KeyError")):
                here.append("raised: operation %d %s raised %s" % (k, str(op)[:80], st["raised"]))
            if not st["settled"]:
                here.append("stalled: the system never became quiet after operation %d %s" % (k, str(op)[:80]))
            if op[0] == "handshake":
                shaken.add(op[1])
                if c["clients"][op[1]]["kind"] == "net":
                    for d in c["devices"]:
                        policy.setdefault((op[1], "ctl", d["name"]), "Never")
                        policy.setdefault((op[1], "blob", d["name"]), "Only")
            if op[0] == "enable":
                policy[(op[1], op[2], op[3])] = op[4]

            def enabled(ci, dn):
                if c["clients"][ci]["kind"] != "net":
                    return False
                return any(policy.get((ci, cn, dn), "Never") in ("Also", "Only") for cn in ("ctl", "blob"))
            if op[0] == "burst":
                op = op[1][-1]          # what the burst leaves behind is what its last operation set
            # 1. a published payload
            if op[0] == "drv" and op[2][0] == "assign" and isinstance(op[2][3], list):
                dn = c["devices"][op[1]]["name"]
                vn, i, (data, fmt) = op[2][1], op[2][2], op[2][3]
                en = drvgen.all_vectors(c["devices"][op[1]])[vn][1]["elements"][i]["name"]
                for ci in sorted(shaken):
                    got = sysgen.client_visible(st["clients"][ci], dn).get(vn, [None] * 5)[4]
                    val = None if got is None else got.get(en, [None, None])[1]
                    if enabled(ci, dn):
                        if val != ["blob", list(data), fmt]:
                            here.append("payload-lost: %d bytes published on %s.%s.%s did not arrive identically at client %d (shows %s)" % (
                                len(data), dn, vn, en, ci, "nothing" if val is None else "%d bytes, format %r" % (len(val[1]), val[2])))
                    else:
                        before = sysgen.client_visible(prev["clients"][ci], dn).get(vn, [None] * 5)[4] if prev else None
                        if (before or {}).get(en) != (got or {}).get(en):
                            here.append("payload-leaked: client %d, which did not enable BLOBs for %s, shows a new payload" % (ci, dn))
                    if c["clients"][ci]["kind"] == "net":
                        for cn, kinds, kprev in zip(("ctl", "blob"), st["conn_kinds"][ci], (prev or st)["conn_kinds"][ci]):
                            if policy.get((ci, cn, dn), "Never") == "Never" and "SetBLOBVector" in kinds[len(kprev):]:
                                here.append("payload-leaked: the %s connection of client %d received a BLOB update without having enabled BLOBs" % (cn, ci))
            # 2. an uploaded payload
            if op[0] == "write" and isinstance(op[4][0][1], list) and not (st["raised"] or "").startswith("KeyError"):
                di = next(i for i, d in enumerate(c["devices"]) if d["name"] == op[2])
                en, (data, fmt) = op[4][0]
                held = None
                for gk, g_on, vecs in st["drivers"][di]:
                    for v in vecs:
                        if v[0] == op[3]:
                            held = {e[0]: e[2] for e in v[3]}.get(en)
                if held != ["b", [list(data), fmt]]:
                    here.append("upload-lost: %d bytes uploaded to %s.%s.%s did not reach the driver identically (holds %s)" % (
                        len(data), op[2], op[3], en, "nothing" if not held or held[1] is None else "%d bytes" % len(held[1][0])))
            # 3. ordinary traffic keeps flowing, also right after a payload of any size
            for ci in sorted(shaken):
                for di, d in enumerate(c["devices"]):
                    if c["clients"][ci]["kind"] == "net" and policy.get((ci, "ctl", d["name"]), "Never") not in ("Never", "Also"):
                        continue        # the client made its control connection BLOB-only for this device; from the BLOB connection
                                        # the client library takes BLOB updates only: ordinary traffic is not expected
                    want = {vn: x for vn, x in sysgen.visible(d, st["drivers"][di]).items() if x[0] != "BLOB"}
                    got = {vn: x for vn, x in sysgen.client_visible(st["clients"][ci], d["name"]).items() if x[0] != "BLOB"}
                    df = sysgen.diff_views(want, got)
                    if df:
                        here.append("traffic-blocked: after operation %d %s client %d: %s" % (k, str(op)[:50], ci, df))
            if op[0] == "write" and isinstance(op[4][0][1], str) and not (st["raised"] or "").startswith("KeyError"):
                di = next(i for i, d in enumerate(c["devices"]) if d["name"] == op[2])
                en, text = op[4][0]
                held = None
                for gk, g_on, vecs in st["drivers"][di]:
                    for v in vecs:
                        if v[0] == op[3]:
                            held = {e[0]: e[2] for e in v[3]}.get(en)
                if held != ["t", text]:
                    here.append("traffic-blocked: the text write that followed did not reach the driver (%s.%s holds %s)" % (op[2], op[3], str(held)[:60]))
            if st.get("long"):
                # K1 concerns the long message itself (steps 1 and 2), never the traffic that follows
                here = [("long-message: " + f) if f.startswith(("payload-lost", "upload-lost")) else f for f in here]
            found += here
        for f in found:
            if not f.startswith("long-message"):
                return f
        return found[0] if found else None

    def known(self, c, obs, failure):
        if failure.startswith("long-message"):
            for k in core.load_known():
                if k.get("property") == "C08" and k.get("status") == "open" and k.get("match") == "long-message":
                    return k["what"]
        return None

    def nontrivial(self, c, obs):
        if obs.get("status") == "ok" and any("SetBLOBVector" in kinds for cl in obs["steps"][-1]["conn_kinds"] for kinds in cl):
            return core.sha([c["devices"], c["ops"]])
        return None

    def histogram(self, cases, obs):
        h = {"sizes": 0}
        for c in cases:
            h["sizes"] += len(c["sizes"])
            for cl in c["clients"]:
                if cl["kind"] == "net":
                    h["down:" + cl["down"]] = h.get("down:" + cl["down"], 0) + 1
                    h["up:" + cl["up"]] = h.get("up:" + cl["up"], 0) + 1
            for op in c["ops"]:
                if op[0] == "enable":
                    key = "policy %s=%s" % (op[2], op[4])
                    h[key] = h.get(key, 0) + 1
        return h

    def sample(self, c, obs):
        return {"sizes": c["sizes"], "clients": c["clients"], "ops": [str(o)[:90] for o in c["ops"][:10]]}


PROP = C08()
