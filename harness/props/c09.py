import itertools

from harness import core

RULES = ["OneOfMany", "AtMostOne", "AnyOfMany"]


def inv(rule, vals, started_with_one):
    n = sum(1 for v in vals if v)
    if rule == "AtMostOne":
        return n <= 1
    if rule == "OneOfMany":
        return n == 1 if started_with_one else n <= 1
    return True


class C09(core.Prop):
    id = "C09"
    prop_file = "C09.v"
    impl_module = "c09"
    entry = "switch"
    correspondence = "real Driver/SwitchVector transitions and published setSwitchVector children vs Driver.Switch.step"
    rule = ("exhaustive: 3 rules x 1..4 switches (5 in thorough) x every initial configuration x every single operation "
            "{assign value/bool_value On/Off to each switch, client write of every ordered pair of (switch,value) incl. an unknown switch, "
            "selected_values of every subset, selected_value of each switch}; plus random operation sequences of length <= 12; plus every client write on 2-3 switches with a Write handler that defers it (prevent_default) and shows the property Busy; "
            "non-trivial = the operation changed the state or published an update; distinct by (rule, initial, ops)")
    assumptions = ["all elements of the vector are enabled (a published update then lists every switch)",
                   "driver-side selected_value(s) are given names the vector has (the setter rejects others by design)"]

    def single_ops(self, n):
        ops = []
        for i in range(n):
            for v in (True, False):
                ops.append(["assign", i, v, "value"])
                ops.append(["assign", i, v, "bool"])
        targets = list(range(n)) + [9]
        for (i, v), (j, w) in itertools.product(itertools.product(targets, (True, False)), repeat=2):
            ops.append(["write", [[i, v], [j, w]]])
        for i in targets:
            for v in (True, False):
                ops.append(["write", [[i, v]]])
        ops.append(["write", []])
        for r in range(n + 1):
            for sub in itertools.combinations(range(n), r):
                ops.append(["selected", list(sub), "multi"])
        for i in range(n):
            ops.append(["selected", [i], "single"])
        return ops

    def gen(self, rng, tier):
        cases = []
        nmax = 4 if tier == "quick" else 5
        for rule in RULES:
            for n in range(1, nmax + 1):
                for init in itertools.product((False, True), repeat=n):
                    for op in self.single_ops(n):
                        cases.append({"rule": rule, "init": list(init), "ops": [op], "label": "single"})
        for _ in range(300 if tier == "quick" else 5000):
            rule = rng.choice(RULES)
            n = rng.randint(1, 5)
            init = [rng.random() < 0.3 for _ in range(n)]
            if rng.random() < 0.6:
                init = [False] * n
                if rng.random() < 0.8:
                    init[rng.randrange(n)] = True
            allops = self.single_ops(n)
            ops = [rng.choice(allops) for _ in range(rng.randint(2, 12))]
            cases.append({"rule": rule, "init": init, "ops": ops, "label": "sequence"})
        # hidden switches (declared enabled=False) are members of the vector all the same: the rule counts them
        for rule in RULES:
            for n in (2, 3):
                for init in itertools.product((False, True), repeat=n):
                    for h in range(n):
                        hidden = [i == h for i in range(n)]
                        for op in self.single_ops(n):
                            cases.append({"rule": rule, "init": list(init), "ops": [op], "hidden": hidden, "label": "hidden-single"})
        for _ in range(150 if tier == "quick" else 3000):
            rule = rng.choice(RULES)
            n = rng.randint(2, 5)
            init = [False] * n
            if rng.random() < 0.8:
                init[rng.randrange(n)] = True
            hidden = [rng.random() < 0.4 for _ in range(n)]
            if not any(hidden):
                hidden[rng.randrange(n)] = True
            allops = self.single_ops(n)
            ops = [rng.choice(allops) for _ in range(rng.randint(2, 10))]
            cases.append({"rule": rule, "init": init, "ops": ops, "hidden": hidden, "label": "hidden-sequence"})
        # every write deferred by a Write handler (prevent_default) that shows the property Busy: nothing may change,
        # and what the handler publishes shows the switches as they were
        for rule in RULES:
            for n in (2, 3):
                for init in itertools.product((False, True), repeat=n):
                    for op in self.single_ops(n):
                        if op[0] == "write":
                            cases.append({"rule": rule, "init": list(init), "ops": [op], "veto": True, "label": "vetoed-write"})
        return cases

    def model_input(self, c):
        if c.get("veto"):
            return [c["rule"], c["init"], []]      # a vetoed write is no operation of the switch model (C14: veto leaves state and wire alone)
        ops = []
        for op in c["ops"]:
            if op[0] == "assign":
                ops.append(["assign", op[1], op[2]])
            elif op[0] == "write":
                ops.append(["write", [[i, v] for i, v in op[1]]])
            else:
                ops.append(["selected", op[1]])
        return [c["rule"], c["init"], ops]

    def compare(self, c, obs, mout):
        if not isinstance(mout, list):
            return "model rejected input %r" % (mout,)
        if obs["status"] != "ok":
            return "implementation %s" % obs["status"]
        if c.get("veto"):
            for k, o in enumerate(obs["ops"]):
                if o["raised"]:
                    return "vetoed operation %d raised %s" % (k, o["raised"])
                if o["state"] != c["init"] or any(p != c["init"] for p in o["pubs"]):
                    return "vetoed write %s: state %s, published %s; the switches were %s and every element's write was vetoed" % (
                        c["ops"][k], o["state"], o["pubs"], c["init"])
            return None
        for k, (o, m) in enumerate(zip(obs["ops"], mout)):
            if o["raised"]:
                return "operation %d %s raised %s" % (k, c["ops"][k][0], o["raised"])
            if o["state"] != [bool(x) for x in m[0]]:
                return "operation %d %s: state %s, model %s" % (k, c["ops"][k], o["state"], m[0])
            if o["pubs"] != [[bool(x) for x in p] for p in m[1]]:
                return "operation %d %s: published %s, model %s" % (k, c["ops"][k], o["pubs"], m[1])
        return None

    def oracle(self, c, obs):
        if obs["status"] != "ok":
            return "crashed: %s" % obs.get("detail", obs["status"])
        rule = c["rule"]
        prev = c["init"]
        one = sum(prev) == 1
        ok_start = inv(rule, prev, one)
        for k, o in enumerate(obs["ops"]):
            op = c["ops"][k]
            if o["raised"]:
                return "raised: %s on a %s vector raised %s" % (op[0], rule, o["raised"])
            if o.get("listed_ok") is False:
                return "listed: an update lists %s, the visible switches are in states %s" % (o["listed"], o["pubs"])
            if ok_start:
                for p in o["pubs"] + [o["state"]]:
                    if not inv(rule, p, one):
                        return "rule-violated: %s %s after %s shows %s (start %s)" % (rule, "published update" if p is not o["state"] else "state", op, p, c["init"])
            if op[0] == "assign" and op[2] and not o["state"][op[1]]:
                return "on-not-on: switch %d turned On is %s afterwards (%s)" % (op[1], o["state"], rule)
            if op[0] == "assign" and rule == "AnyOfMany":
                exp = list(prev)
                exp[op[1]] = op[2]
                if o["state"] != exp:
                    return "anyofmany-frame: assignment %s changed %s into %s" % (op, prev, o["state"])
            if c.get("veto") and o["state"] != prev:
                return "vetoed-write-changed: write %s, vetoed for every element, changed %s into %s (%s)" % (op, prev, o["state"], rule)
            if op[0] == "write" and rule == "AnyOfMany" and not c.get("veto"):
                exp = list(prev)
                for i, v in op[1]:
                    if i < len(exp):
                        exp[i] = v
                if o["state"] != exp:
                    return "anyofmany-frame: write %s changed %s into %s" % (op, prev, o["state"])
            if sum(o["state"]) == 1:
                one = True
            prev = o["state"]
        return None

    def nontrivial(self, c, obs):
        if obs["status"] != "ok":
            return None
        if any(o["pubs"] for o in obs["ops"]):
            return core.sha([c["rule"], c["init"], c["ops"]])
        return None

    def histogram(self, cases, obs):
        h = {}
        for c in cases:
            k = "%s/n=%d/%s" % (c["rule"], len(c["init"]), c["label"])
            h[k] = h.get(k, 0) + 1
        return h


PROP = C09()
