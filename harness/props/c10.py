import itertools
import math
import re
from fractions import Fraction

from harness import core

SEXA = {"3": 60, "5": 600, "6": 3600, "8": 36000, "9": 360000}
SEXA_FMTS = ["%.3m", "%10.3m", "%.5m", "%9.6m", "%.6m", "%.8m", "%12.9m", "%.9m"]
PRINTF_FMTS = ["%f", "%.2f", "%5.2f", "%08.3f", "%+.1f", "% .3f", "%-8.2f", "%.0f", "%#.0f", "%10.4f", "%-010.1f",
               "%d", "%5d", "%05d", "%+d", "% d", "%-6d", "%.3d", "%+05d", "% 05d", "%.10f", "%+08.2f"]
# the INDI reading of a number text, written independently of the library and of the model
REF = re.compile(r"^([-+]?)(?:([0-9]+(?:\.[0-9]*)?|\.[0-9]+)|([0-9]+)[:; ]([0-9]+(?:\.[0-9]*)?|\.[0-9]+)"
                 r"|([0-9]+)[:; ]([0-9]+)[:; ]([0-9]+(?:\.[0-9]*)?|\.[0-9]+))\Z")


def dec(s):
    if s.startswith("."):
        s = "0" + s
    if s.endswith("."):
        s = s + "0"
    return Fraction(s)


def ref_denote(s):
    m = REF.match(s)
    if not m:
        return None
    sg, plain, d2, m2, d3, m3, s3 = m.groups()
    if plain is not None:
        v = dec(plain)
    elif d2 is not None:
        v = Fraction(int(d2)) + dec(m2) / 60
    else:
        v = Fraction(int(d3)) + Fraction(int(m3)) / 60 + dec(s3) / 3600
    return -v if sg == "-" else v


def ref_fields(s):
    m = REF.match(s)
    sg, plain, d2, m2, d3, m3, s3 = m.groups()
    if d2 is not None:
        return [dec(m2)]
    if d3 is not None:
        return [Fraction(int(m3)), dec(s3)]
    return []


def resolution(fmt):
    m = re.match(r"^%(\d*)\.(\d+)m$", fmt)
    if m:
        return Fraction(1, 2 * SEXA[m.group(2)]), False
    m = re.match(r"^%[-+ 0#]*\d*(?:\.(\d+))?([df])$", fmt)
    if m.group(2) == "d":
        return Fraction(1), True
    p = int(m.group(1)) if m.group(1) is not None else 6
    return Fraction(1, 2 * 10 ** p), False


def exact(v):
    return Fraction(float.fromhex(v)) if isinstance(v, str) else Fraction(v)


def as_frac(o):
    if "frac" in o:
        return Fraction(o["frac"][0], o["frac"][1])
    return None


class C10(core.Prop):
    id = "C10"
    prop_file = "C10.v"
    impl_module = "c10"
    entry = "num"
    correspondence = "values.num_to_str / str_to_num / checks.number vs Num.Model (render, parse, check_number) on exact rationals"
    rule = ("render cases: formats (8 sexagesimal, 22 printf-style) x values {boundary classes enumerated: negatives in (-1,0), values within "
            "half a unit of every field carry, integers, width-overflowing, +-0.0, +-1e9} + random finite values in [-1e9,1e9]; thorough adds the "
            "complete resolution grid of %.3m on [-360,360] and sub-grids (prime strides, about 130000 points each) of %.5m/%.6m/%.8m/%.9m; parse cases (each parsed under %f, two sexagesimal and two integer formats, and sent to %f, %.6m and %d elements of a driver): every string up to a bounded "
            "length over a 14-symbol alphabet (digits, '.', ':', ';', blank, sign, a letter, a non-ASCII digit); non-trivial = render case, or parse "
            "case of a string the grammar accepts; distinct by (format, value) / string")
    assumptions = ["float -> exact rational on input and exact rational -> nearest float on output of str_to_num are single correctly rounded "
                   "conversions outside the theorem (compared via float(Fraction))",
                   "CPython's % formatting of floats is correctly rounded (modelled as round-half-even on the exact value)"]

    def values(self, rng, tier):
        vs = [0.0, -0.0, 1.0, -1.0, 0.5, -0.5, -0.004, -0.0001, 0.9999, 1.9999, 59.5 / 60, 59.95 / 60, 359.99999,
              -359.99999, 1e9, -1e9, 123456789.123456, 12.5, -12.51, 2.5, 1.5, 0.125, 0.375, -0.25, 1e-7, -1e-7, 5e-324,
              7, -7, 0, 10 ** 9, -(10 ** 9), 100, 59, 60, 3600]
        for U in (60, 600, 3600, 36000, 360000):
            for k in (0, 1, 12, 359):
                for eps in (0.5, 0.4999, 0.5001, 1.0):
                    vs.append(k + (U - eps) / U)
                    vs.append(-(k + (U - eps) / U))
        for p in (0, 1, 2, 3):
            for eps in (0.5, 0.49, 0.51):
                vs.append((10 ** p * 7 + eps) / 10 ** p)
                vs.append(-(eps / 10 ** p))
        n = 250 if tier == "quick" else 6000
        for _ in range(n):
            r = rng.random()
            if r < 0.3:
                vs.append(rng.uniform(-1, 1))
            elif r < 0.6:
                vs.append(rng.uniform(-360, 360))
            elif r < 0.8:
                vs.append(rng.uniform(-1e9, 1e9))
            elif r < 0.9:
                vs.append(rng.randint(-10 ** 9, 10 ** 9))
            else:
                vs.append(rng.randint(-3600 * 360, 3600 * 360) / rng.choice([60, 600, 3600, 36000, 360000, 10, 100, 1000]))
        return vs

    def gen(self, rng, tier):
        cases = []
        vals = self.values(rng, tier)
        fmts = SEXA_FMTS + PRINTF_FMTS
        for v in vals:
            enc = v.hex() if isinstance(v, float) else v
            for f in (fmts if tier == "thorough" else rng.sample(fmts, 9) + ["%.3m", "%.9m", "%f", "%d"]):
                cases.append({"type": "render", "fmt": f, "value": enc})
        if tier == "thorough":
            for code, U, step in (("3", 60, 1), ("5", 600, 11), ("6", 3600, 61), ("8", 36000, 601), ("9", 360000, 6007)):
                for k in range(-360 * U, 360 * U + 1, step):
                    for d in (0.0, 0.49, -0.49):
                        cases.append({"type": "render", "fmt": "%%.%sm" % code, "value": ((k + d) / U).hex()})
        alpha = list("0159.:; -+") + ["6", "x", "٣", "e"]
        L = 4 if tier == "quick" else 5
        for n in range(1, L + 1):
            for tup in itertools.product(alpha, repeat=n):
                cases.append({"type": "parse", "text": "".join(tup)})
        gram = ["1", "12", "0", "007", "1.", ".5", "1.5", "12.345", "-1", "+1", "-.5", "1:30", "1;30", "1 30", "1:30.5",
                "1:30:15", "1:30:15.5", "1;30;15", "1 30 15.25", "-0:30", "-0:00:01", "+12:00", "1:5", "1:60", "1:99:99",
                "00:00:00", "359:59:59.99", "1:30:", "1::30", ":30", "1: 30", "1:30:15:1", "1e5", "0x10", "١٢", "1,5", " 1", "1 ", "--1"]
        for g in gram:
            cases.append({"type": "parse", "text": g})
        for _ in range(2000 if tier == "quick" else 60000):
            s = "".join(rng.choice("0123456789" * 3 + ".:; -+") for _ in range(rng.randint(5, 9)))
            cases.append({"type": "parse", "text": s})
        return cases

    def model_input(self, c):
        if c["type"] == "render":
            v = float.fromhex(c["value"]) if isinstance(c["value"], str) else c["value"]
            neg = math.copysign(1, v) < 0 if isinstance(v, float) else v < 0
            f = Fraction(abs(v))
            return ["render", c["fmt"], neg, str(f.numerator), str(f.denominator)]
        return ["parse", c["text"]]

    @staticmethod
    def mval(m):
        if not m:
            return None
        ng, n, d = m
        v = Fraction(int(n), int(d))
        return -v if ng else v

    def same_number(self, implo, mv):
        """implementation result (int exact, float nearest) against the model's exact rational"""
        if "frac" not in implo:
            return mv is None
        if mv is None:
            return False
        iv = as_frac(implo)
        if implo["type"] == "int":
            return iv == mv
        return float(mv) == float(iv)

    def compare(self, c, obs, mout):
        if obs["status"] != "ok":
            return "implementation %s" % obs["status"]
        if c["type"] == "render":
            if not isinstance(mout, list):
                return "model rejects the format %s" % c["fmt"]
            if "raised" in obs:
                return "num_to_str raised %s; model renders %r" % (obs["raised"], mout[0] if mout else None)
            if not mout:
                return "model has no rendering for %s" % c["fmt"]
            if mout[0] != obs["text"]:
                return "rendering differs: %s %% %s -> %r, model %r" % (c["fmt"], c["value"], obs["text"], mout[0])
            if bool(mout[2]) != obs["valid"]:
                return "validator differs on %r: impl %s model %s" % (obs["text"], obs["valid"], bool(mout[2]))
            if not self.same_number(obs["back"], self.mval(mout[1])):
                return "parse-back differs on %r: impl %s model %s" % (obs["text"], obs["back"], mout[1])
            return None
        if not isinstance(mout, list):
            return "model rejected input"
        if bool(mout[0]) != obs["valid"]:
            return "validator differs on %r: impl %s model %s" % (c["text"], obs["valid"], bool(mout[0]))
        for k in ("as_f", "as_m", "as_m9", "as_d", "as_d5"):
            if not self.same_number(obs[k], self.mval(mout[1])):
                return "str_to_num differs on %r (%s): impl %s model %s" % (c["text"], k, obs[k], mout[1])
        return None

    def oracle(self, c, obs):
        if obs["status"] != "ok":
            return "crashed: " + obs["status"]
        if c["type"] == "render":
            if "raised" in obs:
                return "render-raised: num_to_str(%s, %r) raised %s" % (c["value"], c["fmt"], obs["raised"])
            a = exact(c["value"])
            s = obs["text"]
            res, strict = resolution(c["fmt"])
            if not obs["valid"]:
                return "not-valid: rendering %r of %s with %r is rejected by the message validator" % (s, c["value"], c["fmt"])
            d = ref_denote(s)
            if d is None:
                return "not-indi: rendering %r (%r) is not an INDI number" % (s, c["fmt"])
            err = abs(d - a)
            if (err >= res) if strict else (err > res):
                return "denotes: %r rendered with %r reads as %s, off by more than the resolution from %s" % (s, c["fmt"], float(d), float(a))
            if any(f >= 60 for f in ref_fields(s)):
                return "field-range: rendering %r has a minutes/seconds field >= 60" % s
            for key in ("back", "back_other"):
                b = as_frac(obs[key])
                if b is None:
                    return "parse-back: str_to_num(%r) fails (%s) for format %r" % (s, obs[key], c["fmt"])
                tol = abs(d) * Fraction(1, 2 ** 52)
                if abs(b - d) > tol:
                    return "parse-back: str_to_num(%r) = %s, but the text denotes %s" % (s, float(b), float(d))
            return None
        d = ref_denote(c["text"])
        if obs["valid"] != (d is not None):
            return "validator: %r %s by checks.number but is %s INDI number" % (c["text"], "accepted" if obs["valid"] else "rejected", "an" if d is not None else "no")
        for k in ("as_f", "as_m", "as_m9", "as_d", "as_d5"):
            b = as_frac(obs[k])
            if d is None:
                if b is not None:
                    return "parser-accepts: str_to_num(%r) = %s for a text that is no INDI number" % (c["text"], float(b))
                continue
            if b is None:
                return "parser-rejects: str_to_num(%r, %s) fails (%s) on a valid INDI number" % (c["text"], k, obs[k])
            if (obs[k]["type"] == "int" and b != d) or (obs[k]["type"] == "float" and float(d) != float(b)):
                return "parse-value: str_to_num(%r) = %s, denotes %s" % (c["text"], float(b), float(d))
        # the same text as a peer sends it: inside an XML newNumberVector, through the parser, to a driver's number elements
        ep = obs.get("as_elem") or {}
        if ep.get("raised"):
            return "element-raised: a newNumberVector carrying %r raised %s" % (c["text"], ep["raised"])
        if not ep.get("skipped"):
            t = c["text"].replace("\r\n", "\n").replace("\r", "\n").strip()
            dd = ref_denote(t)
            if ep.get("rejected"):
                if dd is not None:
                    return "element-rejects: a newNumberVector carrying the valid number %r is rejected by the parser" % t
            else:
                for v in ep["values"]:
                    if dd is None:
                        if not v.get("unchanged"):
                            return "element-accepts: a number element took a value from %r, which is no INDI number" % t
                        continue
                    b = as_frac(v) if not v.get("unchanged") else None
                    if b is None or float(b) != float(dd):
                        return "element-value: a peer sent %r (denotes %s), the number element holds %s" % (t, float(dd), v)
        return None

    def nontrivial(self, c, obs):
        if c["type"] == "render":
            return core.sha([c["fmt"], c["value"]])
        return core.sha(c["text"]) if obs.get("valid") else None

    def histogram(self, cases, obs):
        h = {"render": 0, "parse": 0, "parse_valid": 0}
        for c, o in zip(cases, obs):
            h[c["type"]] += 1
            if c["type"] == "parse" and o.get("valid"):
                h["parse_valid"] += 1
            if c["type"] == "render":
                k = "fmt:" + ("m" if c["fmt"].endswith("m") else c["fmt"][-1])
                h[k] = h.get(k, 0) + 1
        return h


PROP = C10()
