from fractions import Fraction

from harness import core, drvgen, sysgen
from harness.props.c01 import system_input, compare_system
from harness.props.c10 import ref_denote


def ref_switch(rule, vals, i, b):
    """the INDI switch rules, stated independently of the implementation"""
    vals = list(vals)
    if b:
        if rule == "AnyOfMany":
            vals[i] = True
        else:
            vals = [j == i for j in range(len(vals))]
    else:
        if rule == "OneOfMany" and not any(v for j, v in enumerate(vals) if j != i):
            vals[i] = True           # the last switch of a OneOfMany property cannot be turned off
        else:
            vals[i] = False
    return vals


def vec_state(snapshot, vn):
    for gk, g_on, vecs in snapshot:
        for v in vecs:
            if v[0] == vn:
                return g_on, v
    return None, None


class C06(core.Prop):
    id = "C06"
    prop_file = "C06.v"
    impl_module = "system"
    entry = "system"
    correspondence = ("a client's assign+submit through the real serializer, fragmenting byte pipe, server connection handler, framing buffer, router and "
                      "driver vs the composed system model: every device's state and every client's view after every operation")
    rule = ("deployments of 2-3 generated devices x a network client (random fragmentation) and optionally a snooping client x, after a handshake "
            "and a few driver-side operations, 3-8 writes to (device, property, non-empty subset of its visible elements) with values of the "
            "element's domain (text incl. markup characters and non-ASCII, both switch states, numbers in decimal and sexagesimal notation, byte "
            "strings of 0-1500 bytes incl. all 256 values) by either client; non-trivial = the write reached a driver and changed an element; "
            "distinct by content")
    assumptions = ["no Write handler vetoes and no Read handler refreshes values in the generated drivers (the default behaviour is what the property describes)",
                   "the property is visible to the writing client (otherwise the client library refuses the write locally)"]
    per_case_timeout = 30

    def gen(self, rng, tier):
        cases = []
        for k in range(120 if tier == "quick" else 3000):
            devs, clients = sysgen.gen_deployment(rng, ndev=rng.randint(2, 3))
            ops = [["handshake", i] for i in range(len(clients))]
            for d in range(len(devs)):
                # make most things visible so that writes reach their target
                for g in drvgen.effective_groups(devs[d]):
                    if rng.random() < 0.7:
                        ops.append(["drv", d, ["engrp", g["key"], True]])
                    for v in g["vectors"]:
                        if rng.random() < 0.6:
                            ops.append(["drv", d, ["envec", v["name"], True]])
            for _ in range(rng.randint(0, 3)):
                d = rng.randrange(len(devs))
                op = drvgen.random_op(rng, devs[d], client=False)
                if op[0] not in ("client", "enelem"):
                    ops.append(["drv", d, op])
            for _ in range(rng.randint(3, 8)):
                d = rng.randrange(len(devs))
                vecs = drvgen.all_vectors(devs[d])
                vn = rng.choice(sorted(vecs))
                g, v = vecs[vn]
                on = [e for e in v["elements"] if e["enabled"]]
                if v["kind"] == "Light" or not on:
                    continue
                picked = rng.sample(on, rng.randint(1, len(on)))
                ops.append(["write", rng.randrange(len(clients)), devs[d]["name"], vn,
                            [[e["name"], sysgen.write_value(rng, v["kind"])] for e in picked]])
            if k % 4 == 1:
                # several writes through one client to ONE property, naming one element each, the device changing the
                # element written before in between: every write carries what was assigned for it, nothing from earlier ones
                d = rng.randrange(len(devs))
                vecs = drvgen.all_vectors(devs[d])
                many = [vn for vn in sorted(vecs) if vecs[vn][1]["kind"] in ("Text", "Number", "Switch")
                        and sum(1 for e in vecs[vn][1]["elements"] if e["enabled"]) >= 2]
                if many:
                    vn = rng.choice(many)
                    g, v = vecs[vn]
                    on = [(i, e) for i, e in enumerate(v["elements"]) if e["enabled"]]
                    who = rng.randrange(len(clients))
                    order = list(reversed(on)) if rng.random() < 0.6 else rng.sample(on, len(on))
                    ops.append(["drv", d, ["engrp", g["key"], True]])
                    ops.append(["drv", d, ["envec", vn, True]])
                    prev = None
                    for i, e in order + order[:1]:
                        x = "On" if v["kind"] == "Switch" else sysgen.write_value(rng, v["kind"])
                        ops.append(["write", who, devs[d]["name"], vn, [[e["name"], x]]])
                        if prev is not None and v["kind"] != "Switch":
                            ops.append(["drv", d, ["assign", vn, prev, drvgen.random_value(rng, v["kind"])]])
                        prev = i
            cases.append({"devices": devs, "clients": clients, "ops": ops, "seed": k})
        return cases

    def model_input(self, c):
        return system_input(c)

    def compare(self, c, obs, mout):
        return compare_system(c, obs, mout)

    def writes(self, c, obs):
        """(step index, op, reached) for every write whose target was visible to the writing client"""
        out = []
        for k, (op, st) in enumerate(zip(c["ops"], obs["steps"])):
            if op[0] == "write":
                out.append((k, op, not (st["raised"] or "").startswith("KeyError")))
        return out

    def oracle(self, c, obs):
        if obs["status"] != "ok":
            return "%s: %s" % (obs["status"], obs.get("detail", ""))
        found = []
        for k, op, reached in self.writes(c, obs):
            f = self.judge_write(c, obs, k, op, reached)
            if f:
                found.append(("long-message: " + f) if obs["steps"][k].get("long") else f)
        for f in found:
            if not f.startswith("long-message"):
                return f
        return found[0] if found else None

    def known(self, c, obs, failure):
        if failure.startswith("long-message"):
            for k in core.load_known():
                if k.get("property") == "C06" and k.get("status") == "open" and k.get("match") == "long-message":
                    return k["what"]
        return None

    def judge_write(self, c, obs, k, op, reached):
        if True:
            st, prev = obs["steps"][k], obs["steps"][k - 1]
            if st["raised"] and reached:
                return "raised: write %s raised %s" % (str(op)[:100], st["raised"])
            if not st["settled"]:
                return "not-quiet: the system never became quiet after write %s" % str(op)[:100]
            ci, dn, vn, asg = op[1], op[2], op[3], op[4]
            di = next(i for i, d in enumerate(c["devices"]) if d["name"] == dn)
            g, v = drvgen.all_vectors(c["devices"][di])[vn]
            names = [e["name"] for e in v["elements"]]
            for dj in range(len(c["devices"])):
                for (gk, g_on, vecs), (_, _, pvecs) in zip(st["drivers"][dj], prev["drivers"][dj]):
                    for va, vb in zip(vecs, pvecs):
                        if dj == di and va[0] == vn:
                            continue
                        if va != vb:
                            return "other-changed: write to %s.%s changed %s.%s from %s to %s" % (dn, vn, c["devices"][dj]["name"], va[0], str(vb)[:120], str(va)[:120])
            if not reached:
                if st["drivers"] != prev["drivers"]:
                    return "refused-write-changed: a write the client refused changed a device"
                return None
            _, after = vec_state(st["drivers"][di], vn)
            _, before = vec_state(prev["drivers"][di], vn)
            if after[1] != before[1] or after[2] != before[2]:
                return "meta-changed: write to %s.%s changed the property's enabled flag or state" % (dn, vn)
            want = {e[0]: e[2] for e in before[3]}
            if v["kind"] == "Switch":
                vals = [e[2][1] for e in before[3]]
                # the client sends the children in the property's element order
                for en in [n for n in names if n in dict(asg)]:
                    vals = ref_switch(v["rule"], vals, names.index(en), dict(asg)[en] == "On")
                want = {n: ["s", b] for n, b in zip(names, vals)}
            for en, x in asg:
                if v["kind"] == "Text":
                    want[en] = ["t", x]
                elif v["kind"] == "BLOB":
                    want[en] = ["b", [list(x[0]), x[1]]]
                elif v["kind"] == "Number":
                    want[en] = ["n", ref_denote(x)]
            for e in after[3]:
                w, got = want[e[0]], e[2]
                if v["kind"] == "Number" and e[0] in dict(asg):
                    a, b = Fraction(got[1]), w[1]
                    if abs(a - b) > Fraction(1, 10 ** 9) * max(1, abs(b)):
                        return "wrong-value: %s.%s.%s written %r holds %s" % (dn, vn, e[0], dict(asg)[e[0]], float(a))
                elif got != w:
                    tag = "wrong-value" if e[0] in dict(asg) else "sibling-changed"
                    return "%s: %s.%s.%s after write %s holds %s, expected %s" % (tag, dn, vn, e[0], str(asg)[:80], str(got)[:80], str(w)[:80])
            # the writer's own view after the update came back
            cl = c["clients"][ci]
            wantv = sysgen.visible(c["devices"][di], st["drivers"][di])
            gotv = sysgen.client_visible(st["clients"][ci], dn)
            if cl["kind"] == "net" or v["kind"] != "BLOB":
                df = sysgen.diff_views({vn: wantv[vn]} if vn in wantv else {}, {vn: gotv[vn]} if vn in gotv else {}, blobs=True)
                if df:
                    return "view-stale: after its own write client %d (%s) shows %s" % (ci, cl["kind"], df)
        return None

    def nontrivial(self, c, obs):
        if obs.get("status") == "ok" and any(r and obs["steps"][k]["drivers"] != obs["steps"][k - 1]["drivers"] for k, _, r in self.writes(c, obs)):
            return core.sha([c["devices"], c["ops"]])
        return None

    def histogram(self, cases, obs):
        h = {}
        for c, o in zip(cases, obs):
            if o.get("status") != "ok":
                continue
            for k, op, reached in self.writes(c, o):
                d = next(d for d in c["devices"] if d["name"] == op[2])
                kind = drvgen.all_vectors(d)[op[3]][1]["kind"]
                key = "%s/%s/%s" % (kind, c["clients"][op[1]]["kind"], "reached" if reached else "refused")
                h[key] = h.get(key, 0) + 1
        return h

    def sample(self, c, obs):
        return {"devices": [d["name"] for d in c["devices"]], "clients": c["clients"], "writes": [str(o)[:120] for o in c["ops"] if o[0] == "write"][:6]}


PROP = C06()
