"""Streams for the buffer checks: junk, valid spellings, truncations, fragmentations."""
from harness import msggen, xmlgen

KNOWN = sorted(msggen.GRAMMAR) + ["oneLight"]
FRAGS = (["<", ">", "</", "/>", "&", "&amp;", "&lt;", '"', "'", "=", " ", "\n", "\t", "\x00", "<!--", "-->", "<![CDATA[", "]]>",
          "<?xml version=\"1.0\"?>", "<?pi?>", "<!DOCTYPE x>", "<foo", "</foo>", "<foo/>", "<bar a='1'>", "</bar>", "x", "abc", "é", "ÿ", "\x85",
          "name=", "device=\"d\"", "state='Ok'", ">>", "<<", "< getProperties", "<GetProperties"]
         + ["<" + k for k in KNOWN[:8]] + ["</" + k + ">" for k in KNOWN[:6]] + ["<oneText", "</oneText>", "<defNumber "])
BENIGN = [f for f in FRAGS if not any(("<" + k) in f for k in KNOWN)]


def junk(rng, n, benign):
    pool = BENIGN if benign else FRAGS
    s = "".join(rng.choice(pool) if rng.random() < 0.8 else chr(rng.randrange(256)) for _ in range(n))
    if benign:
        # the join must not create an opener either
        while any(("<" + k) in s for k in KNOWN):
            for k in KNOWN:
                s = s.replace("<" + k, "<_" + k)
    return s


def valid_message(rng, short=False, kind=None):
    m = msggen.gen_message(rng, kind, max_children=0 if short else 3)
    if short:
        for k in list(m["attrs"]):
            if k in ("label", "group", "message", "timestamp", "timeout") and len(m["attrs"]) > 2:
                del m["attrs"][k]
    for p in m["children"] or []:
        if p["value"] is not None:
            p["value"] = p["value"].strip()
    return m


def spelling(rng, m, style=None):
    st = style or rng.choice(xmlgen.STYLES)
    return xmlgen.spell(rng, xmlgen.msg_tree(m), st)


def cuts(rng, s, how):
    if how == "whole" or len(s) < 2:
        return [s]
    if how == "chars":
        return list(s)
    if how == "blocks":
        return [s[i:i + 1024] for i in range(0, len(s), 1024)]
    k = min(len(s) - 1, how if isinstance(how, int) else rng.randint(1, 6))
    pos = sorted(rng.sample(range(1, len(s)), k))
    out, prev = [], 0
    for p in pos + [len(s)]:
        out.append(s[prev:p])
        prev = p
    return out


def view(m):
    n = msggen.norm(m)
    return {"kind": n["kind"], "attrs": {k: v for k, v in n["attrs"].items() if v is not None}, "value": n["value"],
            "children": None if n["children"] is None else
            [{"kind": p["kind"], "attrs": {k: v for k, v in p["attrs"].items() if v is not None}, "value": p["value"]}
             for p in n["children"]]}
