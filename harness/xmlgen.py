"""XML element trees [tag, attrs(list of pairs), text, kids] from the message
grammar, their systematic perturbations, and spellings as text."""
import re

from harness import msggen

FOREIGN = ["", "ok", "OK", "on", "ON", "rw ", "RW", "Idle ", "State", "indi.message.const", "__main__", "None",
           "xyz", "1", "Never", "Busy", "On", "rw", "OneOfMany", "never"]
BADNUM = ["abc", "", "1e5", "1..2", "--1", "1:", ":", "٣", "1:2:3:4", "0x10", "1,5", "- 1",
          "nan", "NaN", "inf", "-inf", "Infinity", "1_000", "1E-3", "2.5e+10", "١٢", "+.", "1:-2"]


def part_tree(p):
    return [p["kind"], sorted(p["attrs"].items()), p["value"] or "", []]


def msg_tree(m):
    return [m["kind"], sorted(m["attrs"].items()), m["value"] or "",
            [part_tree(p) for p in (m["children"] or [])]]


def clone(t):
    return [t[0], [list(a) for a in t[1]], t[2], [clone(k) for k in t[3]]]


def set_attr(t, k, v):
    t = clone(t)
    t[1] = [a for a in t[1] if a[0] != k]
    if v is not None:
        t[1].append([k, v])
    return t


def perturb(rng, m):
    """systematic single-point perturbations of the tree of message m: list of (label, tree)"""
    base = msg_tree(m)
    out = [("valid", base)]
    req, opt, dom, child = msggen.GRAMMAR[m["kind"]]
    for k in req:
        out.append(("required-missing:" + k, set_attr(base, k, None)))
    for k in ("state", "perm", "rule"):
        if k in req:
            for v in FOREIGN:
                if v not in {"state": msggen.STATES, "perm": msggen.PERMS, "rule": msggen.RULES}[k]:
                    out.append(("vocab:%s=%s" % (k, v), set_attr(base, k, v)))
    if dom:
        for v in FOREIGN:
            if v not in msggen.BLOBEN:
                t = clone(base)
                t[2] = v
                out.append(("value:" + v, t))
        t = clone(base)
        t[2] = ""
        out.append(("value-as-attribute", set_attr(t, "value", m["value"])))
    out.append(("junk-attribute", set_attr(base, "zzz", "1")))
    out.append(("self-attribute", set_attr(base, "self", "1")))
    out.append(("children-attribute", set_attr(base, "children", rng.choice(["", "x"]))))
    out.append(("unknown-tag", [base[0] + "X"] + clone(base)[1:]))
    out.append(("wrong-case-tag", [base[0].upper()] + clone(base)[1:]))
    t = clone(base)
    t[2] = rng.choice([" ", "\n  ", "txt", " Ok "])
    out.append(("stray-text", t))
    if child:
        preq, popt, pdom = msggen.PARTS[child]
        for ck in msggen.PARTS:
            if ck != child:
                t = clone(base)
                t[3].append(part_tree(msggen.gen_part(rng, ck)))
                out.append(("child-kind:" + ck, t))
        t = clone(base)
        t[3].append(["oneFoo", [["name", "x"]], "1", []])
        out.append(("child-unknown-tag", t))
        for i, kid in enumerate(base[3][:2]):
            for k in preq:
                t = clone(base)
                t[3][i] = set_attr(kid, k, None)
                out.append(("child-required-missing:%s" % k, t))
            pool = {"state": [v for v in FOREIGN if v not in msggen.STATES],
                    "switch": [v for v in FOREIGN if v not in msggen.SWITCH],
                    "number": BADNUM}.get(pdom)
            if pool:
                for v in pool:
                    t = clone(base)
                    t[3][i][2] = v
                    out.append(("child-value:%s" % v, t))
            t = clone(base)
            t[3][i][2] = " " + (kid[2] or "x") + "\n"
            out.append(("child-padded-text", t))
            t = clone(base)
            t[3][i] = set_attr(kid, "self", "1")
            out.append(("child-self-attribute", t))
            t = clone(base)
            t[3][i][3] = [["oneText", [["name", "n"]], "x", []]]
            out.append(("grandchild", t))
    return out


def random_tree(rng, depth=0):
    tags = sorted(msggen.GRAMMAR) + sorted(msggen.PARTS) + ["foo", "message", "é"]
    names = ["device", "name", "state", "perm", "rule", "value", "label", "format", "min", "max", "step", "size",
             "timeout", "version", "uid", "children", "self", "zz"]
    vals = msggen.STATES + msggen.PERMS + msggen.RULES + msggen.SWITCH + msggen.BLOBEN + msggen.NUMS + FOREIGN[:8]
    attrs = {}
    for _ in range(rng.randint(0, 6)):
        attrs[rng.choice(names)] = rng.choice(vals)
    kids = [random_tree(rng, depth + 1) for _ in range(rng.randint(0, 3))] if depth < 2 else []
    return [rng.choice(tags), sorted(attrs.items()), rng.choice(["", "", "Ok", "On", "1.5", " x ", "Also"]), kids]


# ---------- text spellings ----------

def esc(s, attr, quote='"'):
    s = s.replace("&", "&amp;").replace("<", "&lt;").replace(">", "&gt;")
    if attr:
        s = s.replace(quote, "&quot;" if quote == '"' else "&apos;")
        s = s.replace("\n", "&#10;").replace("\r", "&#13;").replace("\t", "&#9;")
    return s


def spell(rng, t, style):
    """one XML spelling of tree t.  style: dict(quote, selfclose, indent, order)"""
    attrs = list(t[1])
    if style.get("shuffle"):
        rng.shuffle(attrs)
    s = "<" + t[0]
    for k, v in attrs:
        q = style["quote"] if style["quote"] != "mixed" else rng.choice("'\"")
        s += (" " if not style.get("wide") else rng.choice([" ", "  ", "\n    "])) + k + "=" + q + esc(v, True, q) + q
    if not t[2] and not t[3]:
        return s + ("/>" if style["selfclose"] == "tight" else " />" if style["selfclose"] == "space" else "></" + t[0] + ">")
    if style.get("padtext") and t[2] and not t[3]:
        # the text of a leaf on a line of its own, as pretty-printers (and indiserver, for BLOBs) write it
        s += ">\n    " + esc(t[2], False) + "\n  "
    else:
        s += ">" + esc(t[2], False)
    ind = style.get("indent")
    for k in t[3]:
        s += ("\n  " if ind and not t[2] else "") + spell(rng, k, style)
    s += ("\n" if ind and t[3] and not t[2] else "") + "</" + t[0] + ">"
    return s


STYLES = [
    {"quote": '"', "selfclose": "space"},
    {"quote": "'", "selfclose": "tight", "shuffle": True},
    {"quote": "mixed", "selfclose": "explicit", "indent": True, "shuffle": True, "wide": True},
    {"quote": '"', "selfclose": "tight", "indent": True},
]


def document(rng, t, style, decl=None):
    body = spell(rng, t, style)
    if decl is None:
        decl = rng.choice(["", '<?xml version="1.0"?>\n', "<?xml version='1.0'?>"])
    return decl + body + rng.choice(["", "\n", " \n"])
