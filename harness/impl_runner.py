"""Child process: runs harness.impl.<module>.run_case on each case under a watchdog.
A hang, a crash or an import error of the (possibly mutated) tree is an observation."""
import importlib
import json
import signal
import sys
import traceback


class Watchdog(BaseException):
    pass


def _alarm(signum, frame):
    raise Watchdog()


def main():
    module, inp, outp = sys.argv[1:4]
    data = json.load(open(inp))
    cases, per_case = data["cases"], data.get("per_case", 10)
    try:
        mod = importlib.import_module("harness.impl." + module)
    except BaseException as e:  # noqa
        obs = [{"status": "import-error", "detail": "%s: %s" % (type(e).__name__, e)} for _ in cases]
        json.dump(obs, open(outp, "w"))
        return
    signal.signal(signal.SIGALRM, _alarm)
    obs = []
    for c in cases:
        signal.alarm(per_case)
        try:
            o = mod.run_case(c)
            signal.alarm(0)
        except Watchdog:
            o = {"status": "hang"}
        except BaseException as e:  # noqa
            signal.alarm(0)
            o = {"status": "raised", "detail": "%s: %s" % (type(e).__name__, str(e)[:200]),
                 "where": traceback.format_exc()[-400:]}
        obs.append(o)
    with open(outp, "w") as f:
        json.dump(obs, f, default=str)


if __name__ == "__main__":
    main()
