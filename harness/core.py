"""Shared machinery of ./check: build, theorem re-check, model runner,
implementation runner, violation protocol, evidence and replay files."""
import fcntl
import hashlib
import json
import os
import random
import re
import subprocess
import sys
import time

from . import sxp

VERIF = os.path.dirname(os.path.dirname(os.path.abspath(__file__)))
REPO = os.environ.get("VERIF_REPO", "/repo")
COQ = os.path.join(VERIF, "coq")
RUNNER = os.path.join(VERIF, "runner")
WORK = os.path.join(VERIF, ".work")
PY = "/venv/bin/python"
FORBIDDEN = re.compile(
    r"\b(Admitted|admit|Axiom|Axioms|Parameter|Parameters|Conjecture|Unset\s+Guard|"
    r"bypass_check|Admit\s+Obligations|type-in-type|impredicative-set|Unset\s+Positivity|"
    r"Unset\s+Universe)\b")

TRUSTED_BASE = [
    "Coq 8.16.1 kernel (coqc, full .vo build; vm_compute used in reflexive lemmas; no native_compute)",
    "axioms: none (Print Assumptions under every property theorem must say 'Closed under the global context')",
    "harness/registry_gen.py: black-box translator live indi.message -> Generated/RegistryData.v",
    "extraction with ExtrOcamlBasic only (bool, option, unit, list, prod, sumbool, sumor; andb/orb inlined); N/Z/positive/nat stay inductive; OCaml 4.13.1; runner/driver.ml",
    "correspondence harness (generators, adapters with fake streams / stepped loop / virtual clock, canonicalisation, direct oracles)",
    "modelled, not verified: expat, ElementTree.tostring, CPython %-formatting and float(), base64, re, asyncio scheduling",
]


def env_for_impl():
    e = dict(os.environ)
    e["PYTHONPATH"] = REPO + os.pathsep + VERIF
    e["PYTHONHASHSEED"] = "0"
    e["INDIPY_VERIF"] = "1"
    e.pop("PYTHONSTARTUP", None)
    return e


def sh(cmd, timeout, cwd=None, env=None, input=None):
    try:
        p = subprocess.run(cmd, cwd=cwd, env=env, input=input, capture_output=True, timeout=timeout)
        return p.returncode, p.stdout.decode("utf-8", "replace"), p.stderr.decode("utf-8", "replace")
    except subprocess.TimeoutExpired as e:
        return 124, (e.stdout or b"").decode("utf-8", "replace"), "TIMEOUT after %ss" % timeout


class Lock:
    def __init__(self, name):
        os.makedirs(WORK, exist_ok=True)
        self.path = os.path.join(WORK, name + ".lock")

    def __enter__(self):
        self.f = open(self.path, "w")
        fcntl.flock(self.f, fcntl.LOCK_EX)

    def __exit__(self, *a):
        fcntl.flock(self.f, fcntl.LOCK_UN)
        self.f.close()


def grep_forbidden():
    bad = []
    for root, _, files in os.walk(os.path.join(COQ, "theories")):
        for fn in files:
            if fn.endswith(".v"):
                p = os.path.join(root, fn)
                txt = open(p, encoding="utf-8").read()
                txt = re.sub(r"\(\*.*?\*\)", "", txt, flags=re.S)
                for m in FORBIDDEN.finditer(txt):
                    bad.append("%s: %s" % (os.path.relpath(p, VERIF), m.group(0)))
    return bad


def regenerate_registry():
    target = os.path.join(COQ, "theories", "Generated", "RegistryData.v")
    rc, out, err = sh([PY, os.path.join(VERIF, "harness", "registry_gen.py"), target], 120, env=env_for_impl())
    return rc, (out + err).strip()


def ensure_makefile():
    mk = os.path.join(COQ, "Makefile")
    vs = []
    for root, _, files in os.walk(os.path.join(COQ, "theories")):
        for fn in files:
            if fn.endswith(".v"):
                vs.append(os.path.relpath(os.path.join(root, fn), COQ))
    vs.sort()
    stamp = os.path.join(COQ, ".vfiles")
    cur = "\n".join(vs)
    if not os.path.exists(mk) or not os.path.exists(stamp) or open(stamp).read() != cur:
        rc, out, err = sh(["coq_makefile", "-f", "_CoqProject"] + vs + ["-o", "Makefile"], 60, cwd=COQ)
        open(stamp, "w").write(cur)


def build(targets=None, jobs=16, timeout=1500):
    """full .vo build (never -vos) of the given targets (default: everything)"""
    ensure_makefile()
    cmd = ["make", "-j%d" % jobs] + (targets or [])
    rc, out, err = sh(cmd, timeout, cwd=COQ)
    if rc != 0:
        # once more, sequentially: a proof that is really broken fails again, a hiccup of the parallel build does not
        rc, out, err = sh(["make"] + (targets or []), timeout, cwd=COQ)
    return rc, out, err


def build_runner():
    ml = os.path.join(RUNNER, "model.ml")
    exe = os.path.join(RUNNER, "modelrun")
    if not os.path.exists(ml):
        return 1, "runner/model.ml missing (extraction did not run)"
    if os.path.exists(exe) and os.path.getmtime(exe) >= os.path.getmtime(ml) and \
            os.path.getmtime(exe) >= os.path.getmtime(os.path.join(RUNNER, "driver.ml")):
        return 0, "up to date"
    rc, out, err = sh([os.path.join(RUNNER, "build.sh")], 300)
    return rc, out + err


def recheck_theorems(prop_file):
    """recompile one Properties file, return (ok, theorems, closed, axioms, output)"""
    rel = os.path.join("theories", "Properties", prop_file)
    rc, out, err = sh(["coqc", "-Q", "theories", "Indi", "-w", "-notation-overridden", rel], 600, cwd=COQ)
    text = out + err
    src = open(os.path.join(COQ, rel), encoding="utf-8").read()
    src_nc = re.sub(r"\(\*.*?\*\)", "", src, flags=re.S)
    theorems = re.findall(r"^\s*Theorem\s+(\w+)", src_nc, flags=re.M)
    prints = re.findall(r"Print Assumptions\s+(\w+)", src_nc)
    closed = text.count("Closed under the global context")
    axioms = re.findall(r"^Axioms:\s*\n((?:.+\n)+)", text, flags=re.M)
    ok = rc == 0 and closed == len(prints) and set(theorems) <= set(prints) and len(theorems) > 0
    return ok, theorems, closed, axioms, text


def run_model(entry, inputs, timeout=1800):
    """inputs: list of python sx values; returns list of decoded results.  Every line is evaluated on its own (the runner keeps
    no state between lines), so a long list is dealt out to several runner processes."""
    jobs = int(os.environ.get("VERIF_JOBS", "12"))
    if len(inputs) >= 400 and jobs > 1:
        from concurrent.futures import ThreadPoolExecutor
        n = min(jobs, len(inputs) // 100)
        # dealt out in turn, not cut into runs: the expensive cases of a generator sit next to each other
        chunks = [inputs[k::n] for k in range(n)]
        with ThreadPoolExecutor(max_workers=n) as ex:
            parts = list(ex.map(lambda ch: run_model_chunk(entry, ch, timeout), chunks))
        res = [None] * len(inputs)
        for k, (r, e) in enumerate(parts):
            if r is None:
                return None, e
            res[k::n] = r
        return res, None
    return run_model_chunk(entry, inputs, timeout)


def run_model_chunk(entry, inputs, timeout):
    exe = os.path.join(RUNNER, "modelrun")
    data = "\n".join(sxp.dumps([entry, x]) for x in inputs) + "\n"
    def big_stack():
        # the extracted code recurses over lists structurally: megabyte payloads need more than the default 8 MB stack
        import resource
        try:
            resource.setrlimit(resource.RLIMIT_STACK, (resource.RLIM_INFINITY, resource.RLIM_INFINITY))
        except (ValueError, OSError):
            pass
    try:
        p = subprocess.run([exe], input=data.encode(), capture_output=True, timeout=timeout, preexec_fn=big_stack)
    except subprocess.TimeoutExpired:
        return None, "model runner timeout"
    if p.returncode != 0:
        return None, "model runner exit %d: %s" % (p.returncode, p.stderr.decode()[:500])
    lines = p.stdout.decode().split("\n")
    res = [sxp.loads(l) for l in lines[:len(inputs)]]
    if len(res) != len(inputs):
        return None, "model runner returned %d results for %d inputs" % (len(res), len(inputs))
    return res, None


def vm_crosscheck(entry, inputs, results, name):
    """evaluate the same cases with vm_compute inside Coq; the two model routes must agree"""
    os.makedirs(WORK, exist_ok=True)
    path = os.path.join(WORK, "Xc_%s_%d.v" % (name, os.getpid()))
    items = ";\n".join("(%s, %s)" % (sxp.coq_term([entry, i]), sxp.coq_term(r)) for i, r in zip(inputs, results))
    with open(path, "w") as f:
        f.write("From Coq Require Import List NArith ZArith Bool.\nImport ListNotations.\n"
                "From Indi Require Import Base.Sx Extract.Dispatch.\n"
                "Definition cases : list (sx * sx) := [\n%s].\n"
                "Definition bad := length (filter (fun c => negb (sx_eqb (dispatch (fst c)) (snd c))) cases).\n"
                "Eval vm_compute in (bad, length cases).\n" % items)
    rc, out, err = sh(["coqc", "-Q", os.path.join(COQ, "theories"), "Indi", path], 600, cwd=WORK)
    for ext in (".v", ".vo", ".vok", ".vos", ".glob"):
        try:
            os.remove(path[:-2] + ext)
        except OSError:
            pass
    try:
        os.remove(os.path.join(WORK, ".Xc_%s_%d.aux" % (name, os.getpid())))
    except OSError:
        pass
    m = re.search(r"=\s*\((\d+),\s*(\d+)\)", out)
    if rc != 0 or not m:
        return False, "vm_compute cross-check failed to run: " + (out + err)[-400:]
    if int(m.group(1)) != 0 or int(m.group(2)) != len(inputs):
        return False, "extracted runner and vm_compute disagree on %s of %s cases" % (m.group(1), m.group(2))
    return True, "%d cases agree" % len(inputs)


def run_impl(module, cases, timeout=900, per_case=10):
    """run the cases against the implementation in child processes, one per shard of the case list"""
    jobs = int(os.environ.get("VERIF_JOBS", "12"))
    if len(cases) < 48 or jobs <= 1:
        return run_impl_shard(module, cases, timeout, per_case, "0")
    from concurrent.futures import ThreadPoolExecutor
    n = min(jobs, len(cases) // 8)
    shards = [list(range(k, len(cases), n)) for k in range(n)]
    obs = [None] * len(cases)
    with ThreadPoolExecutor(max_workers=n) as ex:
        futs = [ex.submit(run_impl_shard, module, [cases[i] for i in idx], timeout, per_case, str(k)) for k, idx in enumerate(shards)]
        for idx, fu in zip(shards, futs):
            for i, o in zip(idx, fu.result()):
                obs[i] = o
    return obs


def run_impl_shard(module, cases, timeout, per_case, tag):
    """run harness.impl.<module>.run_case on every case in a child process (watchdog inside)"""
    os.makedirs(WORK, exist_ok=True)
    inp = os.path.join(WORK, "impl_in_%s_%d_%s.json" % (module, os.getpid(), tag))
    outp = os.path.join(WORK, "impl_out_%s_%d_%s.json" % (module, os.getpid(), tag))
    with open(inp, "w") as f:
        json.dump({"cases": cases, "per_case": per_case}, f)
    if os.path.exists(outp):
        os.remove(outp)
    rc, out, err = sh([PY, "-m", "harness.impl_runner", module, inp, outp], timeout, cwd=VERIF, env=env_for_impl())
    obs = None
    if os.path.exists(outp):
        try:
            obs = json.load(open(outp))
        except Exception:
            obs = None
        os.remove(outp)
    os.remove(inp)
    if obs is None:
        kind = "hang" if rc == 124 else "crash"
        return [{"status": kind, "detail": (err or out)[-300:]} for _ in cases]
    return obs


def sha(x):
    return hashlib.sha1(json.dumps(x, sort_keys=True, default=str).encode()).hexdigest()[:12]


def load_known():
    p = os.path.join(VERIF, "known_findings.json")
    if not os.path.exists(p):
        return []
    return json.load(open(p)).get("findings", [])


class Result:
    def __init__(self, prop_id, tier, seed):
        self.prop_id, self.tier, self.seed = prop_id, tier, seed
        self.t0 = time.time()
        self.violations = []       # (replay path, tail)
        self.known_seen = []
        self.coverage = {}
        self.notes = []

    def write_replay(self, status, unchecked, payload):
        d = os.path.join(VERIF, "replays", self.prop_id)
        os.makedirs(d, exist_ok=True)
        rec = {"property": self.prop_id, "status": status, "unchecked": unchecked, "seed": self.seed,
               "tier": self.tier}
        rec.update(payload)
        path = os.path.join(d, sha(rec) + ".json")
        with open(path, "w") as f:
            json.dump(rec, f, indent=1, default=str)
        return os.path.relpath(path, VERIF)

    def violation(self, status, unchecked, payload):
        path = self.write_replay(status, unchecked, payload)
        tail = "" if status == "counterexample" else " no-failing-input-found"
        self.violations.append((path, tail))

    def finish(self, level_cov, assumptions):
        ev = {
            "property_id": self.prop_id, "tier": self.tier, "seed": self.seed, "level": "proof",
            "coverage": level_cov, "assumptions": assumptions,
            "wall_s": round(time.time() - self.t0, 2), "violations": len(self.violations),
        }
        os.makedirs(os.path.join(VERIF, "evidence"), exist_ok=True)
        with open(os.path.join(VERIF, "evidence", self.prop_id + ".json"), "w") as f:
            json.dump(ev, f, indent=1, default=str)
        for k in self.known_seen:
            print("KNOWN-FINDING: property=%s %s" % (self.prop_id, k))
        for path, tail in self.violations[:5]:
            print("VIOLATION property=%s replay=%s%s" % (self.prop_id, path, tail))
        sys.stdout.flush()
        return 1 if self.violations else 0


class Prop:
    """Base class of one property check.  Subclasses fill in the class attributes and methods."""
    id = None
    prop_file = None           # Properties/Cxx.v
    coq_targets = None         # make targets this property needs (default: its Properties file)
    impl_module = None
    entry = None               # dispatch tag of the model
    correspondence = None      # human name of the correspondence
    uses_registry = False
    per_case_timeout = 10

    def gen(self, rng, tier):
        raise NotImplementedError

    def model_input(self, case):
        raise NotImplementedError

    def model_input2(self, case, obs):
        """model input that may also use the implementation's observation (e.g. its bytes)"""
        return self.model_input(case)

    def compare(self, case, obs, mout):
        """None if model and implementation agree on this case, else a description"""
        raise NotImplementedError

    def oracle(self, case, obs):
        """None if the property holds on this case (judged without the model), else a description"""
        raise NotImplementedError

    def nontrivial(self, case, obs):
        """hashable key of a non-trivial case, None for a trivial one"""
        return sha(case)

    def known(self, case, obs, failure):
        return None

    def sample(self, case, obs):
        return {"case": case, "observed": obs}

    def histogram(self, cases, obs):
        return {}

    def repass(self, cases):
        """indices of the cases to run once more in a single process (second pass)"""
        n = 40 if self.per_case_timeout >= 60 else 240
        if len(cases) <= n:
            return list(range(len(cases)))
        step = len(cases) / float(n)
        return sorted(set(int(k * step) for k in range(n)))

    def extra_search(self, rng):
        """more cases for the failing-input search when an obligation or the correspondence broke"""
        return self.gen(rng, "thorough")[:4000]


def run_prop(prop, tier, seed, replay=None):
    res = Result(prop.id, tier, seed)
    rng = random.Random(seed * 1000003 + int(hashlib.sha1(prop.id.encode()).hexdigest()[:6], 16))
    broken = []          # names of obligations / correspondences that no longer check
    assumptions_txt = ""
    theorems, closed = [], 0
    reg_note = ""
    with Lock("build"):
        bad = grep_forbidden()
        if bad:
            broken.append("forbidden vernacular in development: " + "; ".join(bad[:5]))
        rrc, rout = regenerate_registry()
        reg_note = rout.splitlines()[-1] if rout else ""
        if rrc != 0:
            broken.append("registry generation failed (fail-closed translator): " + reg_note)
        targets = prop.coq_targets or ["theories/Properties/%s" % prop.prop_file.replace(".v", ".vo")]
        rc, out, err = build(targets + ["theories/Extract/Extract.vo"])
        if rc != 0:
            # which half failed?
            rc2, out2, err2 = build(["theories/Extract/Extract.vo"])
            if rc2 != 0:
                broken.append("model library does not build: " + (err2 or out2)[-600:])
            rc3, out3, err3 = build(targets)
            if rc3 != 0:
                m = re.search(r'File "([^"]+)", line (\d+)', err3 + out3)
                where = "%s:%s" % (m.group(1), m.group(2)) if m else "?"
                broken.append("proof obligation no longer checks (%s): %s" % (where, (err3 or out3)[-600:]))
        if not any("does not build" in b for b in broken):
            rrc2, rmsg = build_runner()
            if rrc2 != 0:
                broken.append("extracted runner does not build: " + rmsg[-300:])
        if not broken:
            ok, theorems, closed, axioms, text = recheck_theorems(prop.prop_file)
            assumptions_txt = "; ".join(a.strip() for a in axioms) if axioms else "Closed under the global context (all %d)" % closed
            if not ok:
                broken.append("Properties/%s: %d theorems, %d closed; output tail: %s" % (
                    prop.prop_file, len(theorems), closed, text[-400:]))
            elif tier == "thorough":
                # the independent checker re-checks the compiled property file and everything it depends on
                mod = "Indi.Properties." + prop.prop_file[:-2]
                rc4, out4, err4 = sh(["coqchk", "-silent", "-o", "-Q", "theories", "Indi", mod], 3000, cwd=COQ)
                txt4 = out4 + err4
                if rc4 != 0 or "Axioms: <none>" not in txt4:
                    broken.append("proof obligation: coqchk does not accept %s or reports axioms: %s" % (mod, txt4[-400:]))
                else:
                    res.notes.append("coqchk -o %s: accepted, Axioms: <none>" % mod)

    model_ok = not any(("does not build" in b) for b in broken)

    # ---- cases
    if replay:
        rp = json.load(open(replay))
        if rp.get("sequence"):
            # a failure that shows only after other cases have run in the same process: the whole prefix, in order
            cases = list(rp["sequence"])
        else:
            cases = [rp["input"]] if "input" in rp and rp["input"] is not None else []
    else:
        cases = prop.gen(rng, tier)
        corpus_dir = os.path.join(VERIF, "corpus", prop.id)
        corpus = []
        if os.path.isdir(corpus_dir):
            for fn in sorted(os.listdir(corpus_dir)):
                if fn.endswith(".json"):
                    corpus.append(json.load(open(os.path.join(corpus_dir, fn)))["input"])
        cases = corpus + cases
    if replay and cases:
        obs = run_impl_shard(prop.impl_module, cases, 900, prop.per_case_timeout, "replay")     # one process, in order
    else:
        obs = run_impl(prop.impl_module, cases, per_case=prop.per_case_timeout) if cases else []
        # a case that ran out of time next to eleven other busy processes is run once more, alone and with three
        # times the budget, before it is believed: a hang of the library shows again, a starved process does not
        slow = [i for i, o in enumerate(obs) if isinstance(o, dict) and o.get("status") == "hang"]
        back, tried = 0, 0
        for batch in (slow[:3], slow[3:203]):
            # three first: if one of them hangs again the library hangs, and the others are believed as they are
            if not batch or back < tried:
                break
            budget = prop.per_case_timeout * 3
            obs3 = run_impl_shard(prop.impl_module, [cases[i] for i in batch], budget * len(batch) + 120, budget, "retry")
            tried += len(batch)
            for i, o in zip(batch, obs3):
                if not (isinstance(o, dict) and o.get("status") == "hang"):
                    obs[i] = o
                    back += 1
        if slow:
            res.notes.append("%d cases ran out of time in the sharded run; %d re-run alone, %d of those completed" % (len(slow), tried, back))
    mouts = None
    if model_ok and cases:
        def minput(c, o):
            try:
                return prop.model_input2(c, o)
            except Exception:  # noqa - an observation of unexpected shape: the model is asked about the case alone
                return prop.model_input(c)
        minputs = [minput(c, o) for c, o in zip(cases, obs)]
        mouts, merr = run_model(prop.entry, minputs)
        if mouts is None:
            broken.append("model runner failed: " + merr)
        else:
            # the first cases, up to 40 and up to a size that vm_compute's literal parsing handles in seconds
            picked, budget = [], 60000
            for k in range(len(cases)):
                size = len(sxp.dumps(minputs[k])) + len(sxp.dumps(mouts[k]))
                if size > 100000:
                    continue            # a literal of that size is beyond coqc; the extracted runner alone evaluates it
                if budget - size < 0 and len(picked) >= 3:
                    break
                budget -= size
                picked.append(k)
                if len(picked) >= 40:
                    break
            if picked:
                okx, msg = vm_crosscheck(prop.entry, [minputs[k] for k in picked], [mouts[k] for k in picked], prop.id)
            else:
                okx, msg = True, "skipped: every case is too large for a Coq literal"
            res.notes.append("vm_compute cross-check: " + msg)
            if not okx:
                broken.append(msg)

    # ---- second pass: a sample of the cases once more, in ONE process and in another order.  What the library
    # answers must not depend on what the process has done before (caches, class-level or module-level state).
    again = []
    if cases and not replay:
        idx2 = prop.repass(cases)
        random.Random(seed * 7 + 13).shuffle(idx2)
        if idx2:
            obs2 = run_impl_shard(prop.impl_module, [cases[i] for i in idx2], 900, prop.per_case_timeout, "again")
            again = list(zip(idx2, obs2))
            res.notes.append("second pass: %d cases re-run in one process, shuffled" % len(idx2))

    disagreements, failures = [], []
    nontriv = set()
    obs_of, sequences = {}, {}
    for i, o in [(i, obs[i]) for i in range(len(cases))] + again:
        c = cases[i]
        first = i not in obs_of
        if first:
            obs_of[i] = o
            try:
                k = prop.nontrivial(c, o)
            except Exception:  # noqa
                k = None
            if k is not None:
                nontriv.add(k)
        try:
            f = prop.oracle(c, o)
        except Exception as ex:  # noqa - an observation of a shape the oracle cannot even read is a failure, not a crash of the check
            f = "unreadable: the oracle cannot judge what the implementation did (%s: %s)" % (type(ex).__name__, str(ex)[:120])
        if f is not None:
            if not first:
                obs[i] = o          # the replay shows the observation that failed
                f = f + " [when re-run after other cases in the same process]"
                order = [j for j, _ in again]
                sequences[i] = [cases[j] for j in order[:order.index(i) + 1]]
            failures.append((i, f))
        if mouts is not None:
            try:
                d = prop.compare(c, o, mouts[i])
            except Exception as ex:  # noqa
                d = "model and implementation cannot be compared on this case (%s: %s)" % (type(ex).__name__, str(ex)[:120])
            if d is not None:
                if not first:
                    d = d + " [when re-run after other cases in the same process]"
                disagreements.append((i, d))

    # ---- violation protocol
    reported = set()
    for i, f in failures:
        try:
            kf = prop.known(cases[i], obs[i], f)
        except Exception:  # noqa
            kf = None
        if kf:
            if kf not in res.known_seen:
                res.known_seen.append(kf)
            continue
        sig = f.split(":")[0]
        if sig in reported:
            continue
        reported.add(sig)
        payload = {"input": cases[i], "observed": obs[i], "required": f,
                   "model": mouts[i] if mouts is not None else None}
        if i in sequences:
            payload["sequence"] = sequences[i]
        res.violation("counterexample", None, payload)
    unknown_failures = bool(res.violations)
    if (broken or disagreements) and not unknown_failures:
        # search for a concrete failing input before giving up
        found = False
        if not replay:
            extra = prop.extra_search(random.Random(seed + 7919))
            eobs = run_impl(prop.impl_module, extra, per_case=prop.per_case_timeout) if extra else []
            for c, o in zip(extra, eobs):
                try:
                    f = prop.oracle(c, o)
                except Exception as ex:  # noqa
                    f = "unreadable: the oracle cannot judge what the implementation did (%s: %s)" % (type(ex).__name__, str(ex)[:120])
                if f is not None and not prop.known(c, o, f):
                    res.violation("counterexample", None, {"input": c, "observed": o, "required": f,
                                                           "found_by": "targeted search after broken obligation/correspondence"})
                    found = True
                    break
        if not found:
            what = broken[0] if broken else "correspondence %s: %s" % (prop.correspondence, disagreements[0][1])
            payload = {"broken": broken, "disagreements": len(disagreements)}
            if disagreements:
                i = disagreements[0][0]
                payload.update({"input": cases[i], "observed": obs[i], "model": mouts[i] if mouts else None})
            else:
                payload["input"] = None
            res.violation("no-failing-input-found", what, payload)

    # ---- evidence
    def guarded(fn, default):
        try:
            return fn()
        except Exception as ex:  # noqa - evidence is written whatever shape the observations have
            return default if default is not None else {"unavailable": "%s: %s" % (type(ex).__name__, str(ex)[:100])}
    samples = guarded(lambda: [prop.sample(cases[i], obs[i]) for i in range(0, len(cases), max(1, len(cases) // 3))][:3], [])
    n_obl = len(theorems) + 1 + (1 if prop.uses_registry else 0)
    n_dis = (closed if not any("Properties/" in b or "proof obligation" in b for b in broken) else 0) \
        + (1 if not disagreements and mouts is not None else 0) \
        + ((1 if not any("registry" in b or "proof obligation" in b for b in broken) else 0) if prop.uses_registry else 0)
    cov = {
        "obligations": n_obl, "discharged": n_dis,
        "obligation_names": theorems + ["correspondence:" + (prop.correspondence or prop.id)]
        + (["registry_ok(live_registry)"] if prop.uses_registry else []),
        "checker_cmd": "make -C coq (coqc 8.16.1, full .vo) + coqc theories/Properties/%s + runner/modelrun vs /repo via harness.impl.%s" % (prop.prop_file, prop.impl_module),
        "trusted_base": TRUSTED_BASE,
        "print_assumptions": assumptions_txt,
        "evaluations": len(cases),
        "distinct_nontrivial": len(nontriv),
        "rule": prop.rule,
        "samples": samples,
        "generator_histogram": guarded(lambda: prop.histogram(cases, obs), None),
        "model_vs_impl_disagreements": len(disagreements),
        "oracle_failures": len(failures),
        "known_findings_seen": res.known_seen,
        "broken": broken,
        "registry": reg_note,
        "notes": res.notes,
    }
    return res.finish(cov, prop.assumptions)
