"""Deployments and histories for the system-level properties (C01, C06, C08), and the
model-free reference views used by their oracles."""
from harness import drvgen, msggen

FRAGS = ["whole", "one", "rand", "1024", "rand", "tail1024"]


def gen_deployment(rng, ndev=None, kinds=None, snoop=None):
    n = ndev or rng.randint(1, 3)
    devs = [drvgen.gen_definition(rng, "DEV%d" % i, kinds=kinds) for i in range(n)]
    clients = [{"kind": "net", "up": rng.choice(FRAGS), "down": rng.choice(FRAGS)}]
    if snoop if snoop is not None else rng.random() < 0.5:
        clients.append({"kind": "snoop"})
    return devs, clients


def write_value(rng, kind, fmt=None):
    if kind == "Text":
        return rng.choice(["cx", "c<y&z>", "héllo", "it's \"q\"", "two words", "x" * 40])
    if kind == "Switch":
        return rng.choice(["On", "Off"])
    if kind == "Number":
        return rng.choice(["0", "12", "-3", "1.5", "-0.25", "12:30", "-0:30", "10:20:30.5", "7:15", "+5", ".5", "359:59:59.99"])
    data = rng.choice([[], [1, 2, 3], list(range(256)), [rng.randrange(256) for _ in range(rng.choice([5, 300, 1500]))]])
    return [data, rng.choice([".fits", ".bin", ""])]


def visible(defn, snapshot):
    """what a client should see of a device: {vector name: [kind, group name, label, state, {element: [label, wire value]}]}"""
    from indi.device.values import num_to_str
    from fractions import Fraction
    meta = {}
    for g in drvgen.effective_groups(defn):
        for v in g["vectors"]:
            meta[v["name"]] = (g, v)
    out = {}
    for gk, g_on, vecs in snapshot:
        for vn, v_on, state, elems in vecs:
            g, v = meta[vn]
            if not (g_on and v_on):
                continue
            es = {}
            for (en, e_on, val), ed in zip(elems, v["elements"]):
                if not e_on:
                    continue
                t, x = val
                if t == "n":
                    wire = None if x is None else num_to_str(float(Fraction(x)), ed["fmt"])
                elif t == "s":
                    wire = "On" if x else "Off"
                elif t == "b":
                    wire = None if x is None else ["blob", x[0], x[1]]
                else:
                    wire = x
                es[en] = [ed["label"], wire]
            out[vn] = [v["kind"], g["name"], v["label"], state, es]
    return out


def client_visible(view, dev):
    for dn, vecs in view:
        if dn == dev:
            out = {}
            for vn, kind, group, label, state, es in vecs:
                out[vn] = [kind, group, label, state,
                           {en: [el, (["blob", v[1], v[2]] if v[0] == "blob" else v[1])] for en, el, v in es}]
            return out
    return {}


def norm_text(x):
    if isinstance(x, str):
        x = x.strip()
        return x or None
    return x


def diff_views(want, got, blobs=True):
    """first difference between the device's visible state and a client's view, or None"""
    for vn in sorted(set(want) | set(got)):
        if vn not in got:
            return "property %s of the device is missing from the client's view" % vn
        if vn not in want:
            return "the client still shows property %s, which the device does not currently expose" % vn
        w, g = want[vn], got[vn]
        if w[0] == "BLOB" and not blobs:
            w, g = w[:3], g[:3]          # without BLOBs enabled no setBLOBVector (state, payload) reaches the client
        for i, what in enumerate(["kind", "group", "label", "state"][:len(w) - 1 if len(w) < 5 else 4]):
            if w[i] != g[i]:
                return "property %s: %s is %r on the device, %r in the client's view" % (vn, what, w[i], g[i])
        if len(w) < 5:
            continue
        if sorted(w[4]) != sorted(g[4]):
            return "property %s: elements %s on the device, %s in the client's view" % (vn, sorted(w[4]), sorted(g[4]))
        for en in w[4]:
            if w[4][en][0] != g[4][en][0]:
                return "property %s element %s: label differs" % (vn, en)
            a, b = norm_text(w[4][en][1]), norm_text(g[4][en][1])
            if a != b:
                return "property %s element %s: value is %s on the device, %s in the client's view" % (vn, en, str(a)[:60], str(b)[:60])
    return None
