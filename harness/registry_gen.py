"""Translator: live indi.message package -> coq/theories/Generated/RegistryData.v

Black-box and fail-closed: the table is derived from what the constructors
actually do (which keywords they require, store, swallow, accept or reject),
not from how their source is written, so a refactoring that preserves
behaviour regenerates the same table.  Run with PYTHONPATH=/repo.
"""
import inspect
import os
import sys

UNIVERSE = ["device", "name", "state", "label", "group", "timestamp", "message", "perm",
            "timeout", "rule", "version", "uid", "format", "min", "max", "step", "size"]
VALID = {"device": "D", "name": "N", "state": "Ok", "perm": "rw", "rule": "OneOfMany",
         "version": "1.7", "uid": "u", "format": "%f", "min": "0", "max": "1", "step": "1",
         "size": "3", "label": "L", "group": "G", "timestamp": "T", "message": "M",
         "timeout": "60"}
VALUE_CANDIDATES = ["On", "Ok", "Never", "1", "txt"]
VOCABS = ["State", "Permissions", "SwitchRule", "SwitchState", "BLOBEnable"]
NUMBER_PROBES = ["1", "-1", "+1", "1.5", "1.", ".5", "-.5", "1:30", "1:30:15", "1:30:15.5",
                 "1:30.5", "1 30", "1;30", "1 30 15", "-0:30", "1:5", "abc", "1e5", "٣",
                 "1:٣٠", "--1", "1..2", ":", "1:", ".", "-", "1:2:3:4", " 1", "1 ",
                 "1:-30", "0x10", "1,5", "Ok", "On"]
EXTRA_PROBES = ["", "xyz", "indi.message.const", "State", "__main__", "None", "ok", "OK",
                "on", "ON", "RW", "never", "oneofmany"]


class GenError(Exception):
    pass


def cstr(s):
    return "[" + ";".join(str(ord(c)) for c in s) + "]%N" if s else "[]"


def cbool(b):
    return "true" if b else "false"


def copt(v, f):
    return "None" if v is None else "(Some %s)" % f(v)


def clist(items):
    return "[" + ";\n      ".join(items) + "]"


def vocab_words(const, vname):
    cls = getattr(const, vname)
    return [v for k, v in vars(cls).items() if not k.startswith("_") and isinstance(v, str)]


def try_build(cls, kw):
    try:
        return cls(**kw), None
    except TypeError as e:
        return None, "type"
    except (ValueError, AssertionError, KeyError) as e:
        return None, "reject"


def describe(cls, is_part, all_vocab, part_instances):
    """(record dict, probes) for one class"""
    base = {k: VALID[k] for k in UNIVERSE}
    if not is_part:
        base["children"] = ()
    value_ok = None
    for cand in VALUE_CANDIDATES:
        kw = dict(base, value=cand)
        obj, err = try_build(cls, dict(kw, zz_junk="j"))
        junk = obj is not None
        if obj is None:
            obj, err = try_build(cls, kw)
        if obj is not None:
            value_ok = cand
            break
    if value_ok is None:
        # maybe junk is not swallowed: restrict to the explicit signature
        raise GenError("cannot construct %s with any candidate value" % cls.__name__)
    base["value"] = value_ok
    full = dict(base, zz_junk="j") if junk else dict(base)
    obj, err = try_build(cls, full)
    if obj is None:
        raise GenError("baseline construction of %s failed" % cls.__name__)
    d = obj.__dict__
    stored = [k for k in d if k in UNIVERSE and d[k] == base[k]]     # in __dict__ (serialisation) order
    for k in d:
        if k not in UNIVERSE and k not in ("value", "children"):
            raise GenError("%s stores unexpected attribute %r" % (cls.__name__, k))
    has_value = "value" in d and d["value"] == value_ok
    has_children = (not is_part) and "children" in d

    def required(name):
        kw = {k: v for k, v in full.items() if k != name}
        o, e = try_build(cls, kw)
        if o is None:
            return True     # missing keyword, or its default is rejected by the field's check
        return False

    probes = []
    words = sorted(set(w for ws in all_vocab.values() for w in ws))
    probe_vals = words + EXTRA_PROBES + NUMBER_PROBES + [None]

    def classify(name):
        acc = {}
        quick = all(try_build(cls, dict(full, **{name: p}))[0] is not None for p in ("xyz", "", None))
        for p in (["xyz", "", None] if quick else probe_vals):
            o, e = try_build(cls, dict(full, **{name: p}))
            if o is None and e == "type":
                raise GenError("%s(%s=%r): TypeError" % (cls.__name__, name, p))
            acc[p] = o is not None
        probes.append((cls.tag_name(), is_part, name, [(p, a) for p, a in acc.items()]))
        strs = [p for p in acc if p is not None]
        if all(acc.values()):
            return "CkNone"
        for vn, ws in all_vocab.items():
            if all(acc[p] == (p in ws) for p in strs):
                return "(CkVocab %s)" % cstr(vn)
        if acc["1.5"] and not acc["xyz"] and not acc["Ok"]:
            return "CkNumber"
        return "CkOther"

    fields = []
    for k in stored:
        fields.append("{| fname := %s; freq := %s; fcheck := %s |}" % (cstr(k), cbool(required(k)), classify(k)))
    rec = {"tag": cls.tag_name(), "fields": fields, "junk": junk}
    if has_value:
        rec["value"] = "{| fname := %s; freq := %s; fcheck := %s |}" % (cstr("value"), cbool(required("value")), classify("value"))
    else:
        rec["value"] = None
    if has_children:
        okc = []
        for ptag, pinst in part_instances:
            o, e = try_build(cls, dict(full, children=(pinst,)))
            if o is not None:
                okc.append(ptag)
        o, e = try_build(cls, dict(full, children=None))
        if o is None or list(o.__dict__.get("children")) != []:
            raise GenError("%s(children=None) not an empty child list" % cls.__name__)
        rec["child"] = okc
    else:
        rec["child"] = None
    return rec, probes


def generate():
    import indi.message as im
    from indi.message import const
    from indi.message.base import IndiMessage, IndiMessagePart
    import indi.message.def_parts  # noqa
    import indi.message.one_parts  # noqa
    from indi.routing.router import Router
    from indi.transport.buffer import Buffer

    all_vocab = {vn: vocab_words(const, vn) for vn in VOCABS}
    part_classes = sorted(IndiMessagePart._all_subclasses(), key=lambda c: c.__name__)
    part_recs, probes, part_instances = [], [], []
    for pc in part_classes:
        if pc.__name__ in ("DefIndiMessagePart",):
            continue
        rec, pr = describe(pc, True, all_vocab, [])
        part_recs.append(rec)
        probes += pr
    for pc in part_classes:
        if pc.__name__ in ("DefIndiMessagePart",):
            continue
        base = {k: VALID[k] for k in UNIVERSE}
        for cand in VALUE_CANDIDATES:
            o, e = try_build(pc, dict(base, value=cand))
            if o is not None:
                part_instances.append((pc.tag_name(), o))
                break
    msg_recs = []
    for mc in IndiMessage.all_message_classes():
        rec, pr = describe(mc, False, all_vocab, part_instances)
        rec["client"] = bool(mc.from_client)
        rec["device"] = bool(mc.from_device)
        msg_recs.append(rec)
        probes += pr

    out = []
    out.append("(* GENERATED by harness/registry_gen.py from the live indi.message package. Do not edit. *)")
    out.append("From Coq Require Import List NArith Bool.")
    out.append("Import ListNotations.")
    out.append("From Indi Require Import Base.Sx Msg.Registry.")
    out.append("Definition live_msgs : list mclass := %s." % clist(
        "{| ctag := %s; cclient := %s; cdevice := %s;\n         cfields := [%s];\n         cvalue := %s; cchild := %s; cjunk := %s |}" % (
            cstr(r["tag"]), cbool(r["client"]), cbool(r["device"]), ";\n           ".join(r["fields"]),
            copt(r["value"], lambda x: x),
            copt(r["child"], lambda l: "[" + ";".join(cstr(t) for t in l) + "]"),
            cbool(r["junk"])) for r in msg_recs))
    out.append("Definition live_parts : list pclass := %s." % clist(
        "{| ptag := %s;\n         pfields := [%s];\n         pvalue := %s; pjunk := %s |}" % (
            cstr(r["tag"]), ";\n           ".join(r["fields"]),
            r["value"] if r["value"] else "{| fname := %s; freq := false; fcheck := CkOther |}" % cstr("value"),
            cbool(r["junk"])) for r in part_recs))
    out.append("Definition live_vocabs : list (str * list str) := %s." % clist(
        "(%s, [%s])" % (cstr(vn), ";".join(cstr(w) for w in ws)) for vn, ws in all_vocab.items()))
    out.append("Definition live_probes : list probe := %s." % clist(
        "{| qtag := %s; qpart := %s; qfield := %s; qres := [%s] |}" % (
            cstr(t), cbool(ip), cstr(f), ";".join("(%s,%s)" % (copt(v, cstr), cbool(a)) for v, a in res))
        for (t, ip, f, res) in probes))
    buf = Buffer()
    thr = buf.max_buffer_size_before_frontal_cleanup
    out.append("Definition live_registry : registry := {| rmsgs := live_msgs; rparts := live_parts;")
    out.append("  rvocabs := live_vocabs; rprobes := live_probes;")
    out.append("  rbuffer_tags := [%s];" % ";".join(cstr(t) for t in buf.allowed_tags))
    out.append("  rdefault_policy := %s;" % cstr(str(Router.DEFAULT_BLOB_POLICY)))
    out.append("  rthreshold := %s |}." % ("None" if thr is None else "(Some %d%%N)" % int(thr)))
    return "\n".join(out) + "\n", {"messages": len(msg_recs), "parts": len(part_recs), "probes": len(probes)}


if __name__ == "__main__":
    target = sys.argv[1]
    try:
        text, stats = generate()
    except GenError as e:
        print("REGISTRY-GEN-FAILED:", e)
        sys.exit(3)
    old = open(target).read() if os.path.exists(target) else None
    if old != text:
        with open(target + ".tmp", "w") as f:
            f.write(text)
        os.replace(target + ".tmp", target)
        print("REGISTRY-CHANGED", stats)
    else:
        print("REGISTRY-SAME", stats)
