"""Abstract message descriptions drawn from the INDI message grammar, their
perturbations, and construction of the real objects.  A description is
{"kind", "attrs": {name: str}, "value": str|None, "children": [part]|None},
a part is {"kind", "attrs", "value"}."""

STATES = ["Idle", "Ok", "Busy", "Alert"]
PERMS = ["ro", "wo", "rw"]
RULES = ["OneOfMany", "AtMostOne", "AnyOfMany"]
SWITCH = ["On", "Off"]
BLOBEN = ["Never", "Also", "Only"]
VTYPES = ["Text", "Number", "Switch", "Light", "BLOB"]

# kind -> (required attrs, optional attrs, value domain or None, child kind or None)
GRAMMAR = {
    "getProperties": (["version"], ["device", "name"], None, None),
    "enableBLOB": (["device"], ["name"], "blobenable", None),
    "delProperty": (["device"], ["name", "timestamp", "message"], None, None),
    "message": ([], ["device", "timestamp", "message"], None, None),
    "pingRequest": (["uid"], [], None, None),
    "pingReply": (["uid"], [], None, None),
}
for _t in VTYPES:
    req = ["device", "name", "state"] + ([] if _t == "Light" else ["perm"]) + (["rule"] if _t == "Switch" else [])
    opt = ["label", "group", "timestamp", "message"] + ([] if _t == "Light" else ["timeout"])
    GRAMMAR["def%sVector" % _t] = (req, opt, None, "def" + _t)
    GRAMMAR["set%sVector" % _t] = (["device", "name", "state"], ["timeout", "timestamp", "message"], None, "one" + _t)
    if _t != "Light":
        GRAMMAR["new%sVector" % _t] = (["device", "name"], ["timestamp"], None, "one" + _t)

PARTS = {
    "defText": (["name"], ["label"], "text"),
    "defBLOB": (["name"], ["label"], "none"),
    "defLight": (["name"], ["label"], "state"),
    "defSwitch": (["name"], ["label"], "switch"),
    "defNumber": (["name", "format", "min", "max", "step"], ["label"], "number"),
    "oneText": (["name"], [], "text"),
    "oneNumber": (["name"], [], "number"),
    "oneSwitch": (["name"], [], "switch"),
    "oneLight": (["name"], [], "state"),
    "oneBLOB": (["name", "size", "format"], [], "b64"),
}
FROM_CLIENT = {"getProperties", "enableBLOB", "pingReply", "newTextVector", "newNumberVector",
               "newSwitchVector", "newBLOBVector"}
FROM_DEVICE = set(GRAMMAR) - FROM_CLIENT | {"getProperties"}

NAMES = ["A", "B", "cam", "Focus", "x1", "é", "a b"]
TEXTS = ["", "x", "hello world", "a<b", "1 & 2", "q\"uote", "it's", "é", "\U0001F600", "line\nbreak", "tab\there", ">", "]]>"]
NUMS = ["0", "1", "-1", "1.5", "-0.25", "10.", ".5", "12:30", "-0:30", "12:30:15.5", "3:05.5"]


def attr_value(rng, name):
    if name == "state":
        return rng.choice(STATES)
    if name == "perm":
        return rng.choice(PERMS)
    if name == "rule":
        return rng.choice(RULES)
    if name == "version":
        return rng.choice(["1.7", "1"])
    if name in ("timeout", "size", "min", "max", "step"):
        return rng.choice(["0", "1", "60", "100", "2.5"]) if name != "size" else rng.choice(["0", "3", "12"])
    if name == "format":
        return rng.choice(["%f", "%5.2f", "%.3m", "%d", ".fits", ""])
    if name == "timestamp":
        return rng.choice(["2024-01-01T00:00:00", "T"])
    if name in ("device", "name", "uid"):
        return rng.choice(NAMES)
    return rng.choice(TEXTS[1:])


def domain_value(rng, dom):
    if dom == "text":
        return rng.choice(TEXTS + [None])
    if dom == "none":
        return None
    if dom == "state":
        return rng.choice(STATES)
    if dom == "switch":
        return rng.choice(SWITCH)
    if dom == "number":
        return rng.choice(NUMS)
    if dom == "b64":
        return rng.choice(["", "QUJD", "AAEC/w==", None])
    if dom == "blobenable":
        return rng.choice(BLOBEN)
    raise ValueError(dom)


def gen_part(rng, kind):
    req, opt, dom = PARTS[kind]
    attrs = {k: attr_value(rng, k) for k in req}
    for k in opt:
        if rng.random() < 0.5:
            attrs[k] = attr_value(rng, k)
    return {"kind": kind, "attrs": attrs, "value": domain_value(rng, dom)}


def gen_message(rng, kind=None, max_children=5):
    kind = kind or rng.choice(sorted(GRAMMAR))
    req, opt, dom, child = GRAMMAR[kind]
    attrs = {k: attr_value(rng, k) for k in req}
    for k in opt:
        if rng.random() < 0.5:
            attrs[k] = attr_value(rng, k)
    m = {"kind": kind, "attrs": attrs, "value": domain_value(rng, dom) if dom else None, "children": None}
    if child:
        m["children"] = [gen_part(rng, child) for _ in range(rng.randint(0, max_children))]
    return m


def canon_part(p):
    return (p["kind"], tuple(sorted((k, v) for k, v in p["attrs"].items() if v is not None)), p["value"])


def canon(m):
    return (m["kind"], tuple(sorted((k, v) for k, v in m["attrs"].items() if v is not None)), m["value"],
            None if m["children"] is None else tuple(canon_part(p) for p in m["children"]))


def norm(m):
    """the normalisation C03 allows: empty text equals absent text"""
    n = clone(m)
    if n["value"] == "":
        n["value"] = None
    for p in n["children"] or []:
        if p["value"] == "":
            p["value"] = None
    return n


def clone(m):
    return {"kind": m["kind"], "attrs": dict(m["attrs"]), "value": m["value"],
            "children": None if m["children"] is None else
            [{"kind": p["kind"], "attrs": dict(p["attrs"]), "value": p["value"]} for p in m["children"]]}


def other_value(rng, v, pool):
    c = [x for x in pool if x != v and x is not None]
    return rng.choice(c)


def perturbations(rng, m):
    """every single-point perturbation of m that keeps it constructible: list of (label, message)"""
    out = []
    req, opt, dom, child = GRAMMAR[m["kind"]]
    for k in list(m["attrs"]):
        n = clone(m)
        pool = {"state": STATES, "perm": PERMS, "rule": RULES}.get(k, NAMES + ["zz", "0", "7"])
        n["attrs"][k] = other_value(rng, m["attrs"][k], pool)
        out.append(("attr-changed:" + k, n))
        if k in opt:
            n = clone(m)
            del n["attrs"][k]
            out.append(("attr-dropped:" + k, n))
    for k in opt:
        if k not in m["attrs"]:
            n = clone(m)
            n["attrs"][k] = attr_value(rng, k)
            out.append(("attr-added:" + k, n))
    if dom:
        n = clone(m)
        n["value"] = other_value(rng, m["value"], BLOBEN)
        out.append(("text-changed", n))
    if m["children"] is not None:
        ch = m["children"]
        for i, p in enumerate(ch):
            preq, popt, pdom = PARTS[p["kind"]]
            n = clone(m)
            n["children"][i]["attrs"]["name"] = other_value(rng, p["attrs"]["name"], NAMES + ["zz"])
            out.append(("child-name-changed:%d/%d" % (i, len(ch)), n))
            pool = {"text": TEXTS, "state": STATES, "switch": SWITCH, "number": NUMS,
                    "b64": ["", "QUJD", "AAEC/w==", "eA=="], "none": None}[pdom]
            if pool:
                n = clone(m)
                n["children"][i]["value"] = other_value(rng, p["value"], pool)
                out.append(("child-value-changed:%d/%d" % (i, len(ch)), n))
            for k in popt:
                n = clone(m)
                if k in p["attrs"]:
                    del n["children"][i]["attrs"][k]
                    out.append(("child-attr-dropped:%d/%d" % (i, len(ch)), n))
                else:
                    n["children"][i]["attrs"][k] = attr_value(rng, k)
                    out.append(("child-attr-added:%d/%d" % (i, len(ch)), n))
            n = clone(m)
            del n["children"][i]
            out.append(("child-dropped:%d/%d" % (i, len(ch)), n))
            n = clone(m)
            n["children"].insert(i, clone({"kind": "x", "attrs": {}, "value": None, "children": [p]})["children"][0])
            out.append(("child-duplicated:%d/%d" % (i, len(ch)), n))
            if i + 1 < len(ch):
                n = clone(m)
                n["children"][i], n["children"][i + 1] = n["children"][i + 1], n["children"][i]
                out.append(("children-swapped:%d/%d" % (i, len(ch)), n))
        n = clone(m)
        n["children"].append(gen_part(rng, child))
        out.append(("child-appended:%d" % len(ch), n))
    # kind changed, everything else alike
    twins = [k for k, g in GRAMMAR.items() if k != m["kind"] and set(g[0]) <= set(m["attrs"])
             and set(m["attrs"]) <= set(g[0]) | set(g[1]) and (g[2] is None) == (dom is None)
             and ((g[3] is None) == (child is None))]
    for k in twins[:2]:
        n = clone(m)
        n["kind"] = k
        if n["children"] is not None:
            newchild = GRAMMAR[k][3]
            compatible = PARTS[newchild][2] == PARTS[child][2] and not any(
                set(PARTS[newchild][0]) - set(p["attrs"]) or set(p["attrs"]) - set(PARTS[newchild][0]) - set(PARTS[newchild][1])
                for p in n["children"])
            if compatible:
                for p in n["children"]:
                    p["kind"] = newchild
            else:
                # same attributes, no children on either side: only the kind differs
                n["children"] = []
                m2 = clone(m)
                m2["children"] = []
                out.append(("kind-changed:" + k, n, m2))
                continue
        out.append(("kind-changed:" + k, n))
    out.extend(long_value_perturbations(rng, m))
    return out


def long_value_perturbations(rng, m):
    """two messages alike but for ONE character far inside (or at the very end of) a long value - a child's
    text or payload, a free-form attribute: (label, changed, base)"""
    out = []
    child = GRAMMAR[m["kind"]][3]

    def variants(long_value, alphabet):
        for pos in (rng.randrange(70, len(long_value) - 1), len(long_value) - 1):
            c = rng.choice([a for a in alphabet if a != long_value[pos]])
            yield pos, long_value[:pos] + c + long_value[pos + 1:]

    if m["children"]:
        i = rng.randrange(len(m["children"]))
        pdom = PARTS[m["children"][i]["kind"]][2]
        long_value = {"text": ("The quick brown fox jumps over the lazy dog. " * 6).strip(),
                      "b64": "QUJDREVGR0hJSktM" * 12,
                      "number": "1." + "0123456789" * 9}.get(pdom)
        if long_value:
            alphabet = "ABCDEFGHabcdefgh" if pdom != "number" else "0123456789"
            base = clone(m)
            base["children"][i]["value"] = long_value
            for pos, v in variants(long_value, alphabet):
                n = clone(base)
                n["children"][i]["value"] = v
                out.append(("child-long-value-changed-at-%d:%d/%d" % (pos, i, len(m["children"])), n, base))
    free = [k for k in m["attrs"] if k not in ("state", "perm", "rule")]
    if free:
        k = rng.choice(sorted(free))
        long_value = "N" + "abcdefghij" * 12
        base = clone(m)
        base["attrs"][k] = long_value
        for pos, v in variants(long_value, "klmnopqrs"):
            n = clone(base)
            n["attrs"][k] = v
            out.append(("attr-long-value-changed-at-%d:%s" % (pos, k), n, base))
    return out


# ---------------- real objects ----------------

def classes():
    from indi.message.base import IndiMessage, IndiMessagePart, Message
    import indi.message  # noqa
    mc = {}
    for c in IndiMessage.all_message_classes():
        mc[c.tag_name()] = c
    if "message" not in mc:
        mc["message"] = Message
    pc = {c.tag_name(): c for c in IndiMessagePart._all_subclasses()}
    return mc, pc


def build_part(pc, p):
    return pc[p["kind"]](**dict(p["attrs"], value=p["value"]))


def build(m, as_tuple=False, as_int=()):
    mc, pc = classes()
    kw = dict(m["attrs"])
    for k in as_int:
        if k in kw and kw[k].lstrip("-").isdigit():
            kw[k] = int(kw[k])
    if m["value"] is not None:
        kw["value"] = m["value"]
    if m["children"] is not None:
        ch = [build_part(pc, p) for p in m["children"]]
        kw["children"] = tuple(ch) if as_tuple else ch
    return mc[m["kind"]](**kw)


def sx_part(p):
    return [p["kind"], [[k, v] for k, v in sorted(p["attrs"].items()) if v is not None],
            [] if p["value"] is None else [p["value"]]]


def sx_msg(m):
    return [m["kind"], [[k, v] for k, v in sorted(m["attrs"].items()) if v is not None],
            [] if m["value"] is None else [m["value"]],
            [] if m["children"] is None else [[sx_part(p) for p in m["children"]]]]


def describe(obj):
    """public structural view of a real message object (for oracles)"""
    d = {k: (None if v is None else str(v)) for k, v in vars(obj).items() if k not in ("children", "value")}
    out = {"kind": obj.tag_name(), "attrs": {k: v for k, v in d.items() if v is not None},
           "value": None if getattr(obj, "value", None) is None else str(obj.value), "children": None}
    if hasattr(obj, "children"):
        out["children"] = [{"kind": c.tag_name(),
                            "attrs": {k: str(v) for k, v in vars(c).items() if k != "value" and v is not None},
                            "value": None if c.value is None else str(c.value)} for c in obj.children]
    return out
