"""C17 adapter: BaseClient.waitforevent on a deterministic virtual-clock event loop.
A director task delivers the scripted messages / starts the scripted waits at their
instants; the loop's clock jumps to the next timer whenever it would block."""
import asyncio
import selectors

from harness import msggen
from harness.impl.client import describe_event

GRID = 0.25


class VSelector(selectors.SelectSelector):
    loop = None
    on_idle = None

    def select(self, timeout=None):
        if timeout is None or timeout > 0:
            if self.on_idle:
                self.on_idle()
            if timeout:
                self.loop._vt += timeout
        return []


class VLoop(asyncio.SelectorEventLoop):
    def __init__(self):
        sel = VSelector()
        super().__init__(sel)
        sel.loop = self
        self._vt = 0.0

    def time(self):
        return self._vt


def run_case(c):
    from indi.client.client import BaseClient
    from indi.client import events
    etype = {"any": events.BaseEvent, "def": events.DefinitionUpdate, "value": events.ValueUpdate, "state": events.StateUpdate}
    loop = VLoop()
    asyncio.set_event_loop(loop)
    polls, evlog, results, snaps = [], [], {}, {}

    class C(BaseClient):
        def send_message(self, msg):
            if type(msg).__name__ == "GetProperties":
                polls.append([loop.time() / GRID, getattr(msg, "device", None), getattr(msg, "name", None)])

    client = C()

    def now():
        return loop.time() / GRID

    def idle():
        snaps[now()] = len(client.callbacks) - 1     # minus the recording catch-all

    loop._selector.on_idle = idle

    def value_of(ev):
        if isinstance(ev, events.ValueUpdate):
            return ev.new_value
        if isinstance(ev, events.StateUpdate):
            return ev.new_state
        return None

    async def one_wait(w):
        kw = dict(device=w["dev"], vector=w["vec"], element=w["elem"], event_type=etype[w["type"]])
        if w["timeout"] is not None:
            kw["timeout"] = w["timeout"] * GRID
        if w["poll"] is None:
            kw["polling_enabled"] = False
        else:
            kw.update(polling_enabled=True, polling_delay=w["poll"][0] * GRID, polling_interval=w["poll"][1] * GRID)
        kind, val = w["cond"]
        if kind == "expect":
            kw["expect"] = val
        elif kind == "initial":
            kw["initial"] = val
        else:
            kw["check"] = lambda ev: value_of(ev) in val
        begun = now()
        try:
            ev = await client.waitforevent(**kw)
            results[w["id"]] = {"start": begun, "done": now(), "outcome": ["event", describe_event(ev)] if ev is not None else ["nothing"]}
        except asyncio.CancelledError:
            results[w["id"]] = {"start": begun, "done": None, "outcome": None}
            raise
        except Exception as e:  # noqa
            results[w["id"]] = {"start": begun, "done": now(),
                                "outcome": ["timeout"] if "imeout" in str(e) else ["raised", "%s: %s" % (type(e).__name__, e)]}

    async def main():
        client.onevent(callback=lambda ev: evlog.append([now(), describe_event(ev)]))
        for d in c["defs"]:
            client.process_message(msggen.build(d))
        del evlog[:]
        tasks = []
        for t, batch in enumerate(c["instants"]):
            if not batch:
                continue
            delay = t * GRID - loop.time()
            if delay > 0:
                await asyncio.sleep(delay)
            for it in batch:
                if it[0] == "msg":
                    client.process_message(msggen.build(it[1]))
                else:
                    tasks.append(loop.create_task(one_wait(it[1])))
        rest = (len(c["instants"]) - 0.5) * GRID - loop.time()      # stop between the last instant and the next
        await asyncio.sleep(rest)
        left = len(client.callbacks) - 1
        for tk in tasks:
            if not tk.done():
                tk.cancel()
        for tk in tasks:
            try:
                await tk
            except BaseException:  # noqa
                pass
        return left

    try:
        left = loop.run_until_complete(main())
    finally:
        loop.close()
    return {"status": "ok", "results": {str(k): v for k, v in results.items()}, "polls": polls, "events": evlog,
            "snaps": sorted(snaps.items()), "left": left}
