"""C20 adapter: build both messages through the real constructors (or the real
parser) and compare them with the library's == and !=."""
from harness import msggen


def make(m, how):
    if how == "parsed":
        from indi.message import IndiMessage
        try:
            return IndiMessage.from_string(msggen.build(m).to_string())
        except Exception:
            return None
    return msggen.build(m, as_tuple=(how == "ctor-tuple"), as_int=("timeout", "size") if how == "ctor-int" else ())


def run_case(c):
    a = make(c["a"], c["how_a"])
    b = make(c["b"], c["how_b"])
    if a is None or b is None:
        return {"status": "skipped", "detail": "library could not re-parse its own message (C03 matter)"}
    return {"status": "ok", "eq": bool(a == b), "ne": bool(a != b), "sym": bool(b == a),
            "view_a": msggen.describe(a), "view_b": msggen.describe(b)}
