"""C13 adapter: IndiMessage.from_xml on an ElementTree element built from the tree."""
import xml.etree.ElementTree as ET

from harness import msggen


def build(t, parent=None):
    attrs = {k: v for k, v in t[1]}
    e = ET.Element(t[0], attrs) if parent is None else ET.SubElement(parent, t[0], attrs)
    e.text = t[2] if t[2] != "" else None
    for k in t[3]:
        build(k, e)
    return e


def run_case(c):
    from indi.message import IndiMessage
    try:
        m = IndiMessage.from_xml(build(c["tree"]))
    except Exception as e:  # noqa
        return {"status": "ok", "accepted": False, "error": type(e).__name__}
    d = msggen.describe(m)
    kinds = {"msg": type(m).__name__,
             "children": None if not hasattr(m, "children") else [type(ch).__name__ for ch in m.children]}
    return {"status": "ok", "accepted": True, "msg": d, "classes": kinds}
