"""C12 adapter: a session of client messages (some hostile) sent to a deployment
through the real TCP handler, the real TTY handler or direct router calls."""
import asyncio

from harness import msggen
from harness.impl import driver as drvimpl


class Observer:
    pass


def run_case(c):
    from indi.routing import Router, Client
    from indi.message import IndiMessage, EnableBLOB
    seen = []

    class Rec(Client):
        def message_from_device(self, message):
            seen.append(drvimpl.strip_ts(msggen.describe(message)))

    async def main():
        router = Router()
        obs = Rec()
        router.register_client(obs)
        drv, kinds_of = drvimpl.build_class(c["defn"], [], real_router=router)
        router.process_message(EnableBLOB(device=drv.name, value="Also"), sender=obs)
        steps = []
        texts = c["texts"]
        tr = c["transport"]
        result = {"status": "ok", "finished": None, "unregistered_after_eof": None}

        def mark(raised=None, alive=None):
            steps.append({"raised": raised, "alive": alive, "state": drvimpl.snapshot(drv, kinds_of), "seen": list(seen)})
            del seen[:]

        if tr == "direct":
            class Quiet(Client):
                def message_from_device(self, message):
                    pass
            sender = Quiet()
            router.register_client(sender)
            for t in texts:
                raised = None
                try:
                    m = IndiMessage.from_string(t)
                except Exception:
                    m = None
                if m is not None:
                    try:
                        router.process_message(m, sender=sender)
                    except Exception as e:  # noqa
                        raised = "%s: %s" % (type(e).__name__, str(e)[:100])
                mark(raised, sender in router.clients)
            result["finished"] = True
            result["unregistered_after_eof"] = True
        else:
            state = {"i": 0, "handler": None, "closed": False}

            class Writer:
                def write(self, data):
                    pass

                async def drain(self):
                    pass

                def close(self):
                    state["closed"] = True

            def alive():
                h = state["handler"]
                return h is not None and h in router.clients and not state["closed"]

            class Reader:
                async def read(self, n=-1):
                    return self._next(True)

                async def readline(self):
                    return self._next(False)

                def _next(self, as_bytes):
                    if state["i"] > 0:
                        mark(None, alive())
                        if state.get("coalesced"):
                            # two messages came in the read before: the second has no step of its own
                            state["coalesced"] = False
                            mark(None, alive())
                    if state["i"] >= len(texts):
                        return b"" if as_bytes else ""
                    t = texts[state["i"]]
                    state["i"] += 1
                    if as_bytes and c.get("coalesce") == state["i"] - 1 and state["i"] < len(texts):
                        # the message and the one behind it arrive in ONE read, framed as to_string frames them
                        frame = '<?xml version="1.0"?>\n%s\n'
                        t = frame % t + frame % texts[state["i"]]
                        state["i"] += 1
                        state["coalesced"] = True
                    return t.encode("latin1") if as_bytes else t

            if tr == "tcp":
                from indi.transport.server.tcp import ConnectionHandler
                orig_init = ConnectionHandler.__init__

                def spy_init(self, *a, **k):
                    orig_init(self, *a, **k)
                    state["handler"] = self
                ConnectionHandler.__init__ = spy_init
                try:
                    await ConnectionHandler.handler(router)(Reader(), Writer())
                finally:
                    ConnectionHandler.__init__ = orig_init
            else:
                from indi.transport.server.tty import ConnectionHandler
                h = ConnectionHandler(router, Reader(), Writer())
                state["handler"] = h
                state["closed"] = False
                await h.handle()
            result["finished"] = True
            result["unregistered_after_eof"] = state["handler"] not in router.clients
        for _ in range(3):
            await asyncio.sleep(0)
        result["steps"] = steps
        result["name"] = drv.name
        return result

    return asyncio.run(main())
