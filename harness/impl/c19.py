"""C19 adapter: real connection handlers (TCP server, TCP client, TTY) on a real event
loop that is stepped one iteration at a time; the awaitables of the fake streams are
released by the schedule.  Real moves: ["route", conn, k] ["iter"] ["complete", conn]."""
import asyncio
from asyncio import events


BIG = 70000
_TOKENS = []


def msg_k(k, big=False):
    from indi.message.base import Message
    if big and k % 2 == 0:
        # longer than any slice a transport might cut a message into
        return Message(device="D", message="m%03d" % k + "x" * BIG)
    if k % 3 == 1:
        # a transport must not treat one kind of message differently from another: an image update among notices
        from indi.message import SetBLOBVector
        from indi.message.one_parts import OneBLOB
        return SetBLOBVector(device="D", name="IMG", state="Ok", children=[OneBLOB(name="m%03d" % k, size="3", format=".x", value="QUJD")])
    if k % 3 == 2:
        from indi.message import SetNumberVector
        from indi.message.one_parts import OneNumber
        return SetNumberVector(device="D", name="N", state="Busy", children=[OneNumber(name="m%03d" % k, value="1.5")])
    return Message(device="D", message="m%03d" % k)


def content_k(c, k):
    """the message a route move sends: with "same", every message routed to a connection has the very same bytes"""
    if c.get("same"):
        return msg_k((k // 100) * 100 + (2 if c["same"] == 2 else 0), c.get("big"))
    return msg_k(k, c.get("big"))


def shown(text, big):
    """what is recorded of a stream: with long messages, each WHOLE long message stands as a short token"""
    if not big:
        return text
    if not _TOKENS:
        for base in (0, 100, 200, 300):
            for k in range(base, base + 40, 2):
                _TOKENS.append((msg_k(k, True).to_string().decode("latin1"), "[[%d]]" % k))
    if len(text) > 1000:
        for t, tok in _TOKENS:
            if t in text:
                text = text.replace(t, tok)
    if len(text) > 4000:
        text = text[:300] + "...(%d characters that are not whole messages)" % len(text)
    return text


def run_case(c):
    loop = asyncio.new_event_loop()
    try:
        return _run(c, loop)
    finally:
        try:
            for t in asyncio.all_tasks(loop):
                t.cancel()
            loop.call_soon(loop.stop)
            loop.run_forever()
        except Exception:
            pass
        loop.close()


def _run(c, loop):
    kinds = c["kinds"]
    outs = [[] for _ in kinds]
    pend = [None for _ in kinds]      # (future, data-to-record-on-completion or None)

    class Writer:
        def __init__(self, i):
            self.i = i

        def write(self, data):
            outs[self.i].append(bytes(data))

        def drain(self):
            f = loop.create_future()
            pend[self.i] = (f, None)
            return f

        def close(self):
            pass

    class Stdout:
        def __init__(self, i):
            self.i = i

        def write(self, data):
            f = loop.create_future()
            pend[self.i] = (f, data.encode("latin1") if isinstance(data, str) else bytes(data))
            return f

        def flush(self):
            f = loop.create_future()
            pend[self.i] = (f, None)
            return f

    class NullRouter:
        def register_client(self, x):
            pass

        def unregister_client(self, x):
            pass

    events._set_running_loop(loop)
    try:
        handlers = []
        for i, k in enumerate(kinds):
            if k == "tcp-server":
                from indi.transport.server.tcp import ConnectionHandler
                handlers.append(ConnectionHandler(None, Writer(i), NullRouter()))
            elif k == "tcp-client":
                from indi.transport.client.tcp import ConnectionHandler
                handlers.append(ConnectionHandler(None, Writer(i), lambda m: None))
            else:
                from indi.transport.server.tty import ConnectionHandler
                handlers.append(ConnectionHandler(NullRouter(), None, Stdout(i)))
    finally:
        events._set_running_loop(None)

    def route(i, k):
        events._set_running_loop(loop)
        try:
            h = handlers[i]
            m = content_k(c, k)
            if kinds[i] == "tcp-client":
                h.send_message(m)
            else:
                h.message_from_device(m)
        finally:
            events._set_running_loop(None)

    expected = {}
    steps = []
    for mv in c["moves"]:
        nready = len(loop._ready)
        raised = None
        try:
            if mv[0] == "route":
                expected.setdefault(mv[1], []).append(content_k(c, mv[2]).to_string())
                route(mv[1], mv[2])
            elif mv[0] == "iter":
                loop.call_soon(loop.stop)
                loop.run_forever()
            elif mv[0] == "complete":
                p = pend[mv[1]]
                if p is not None and not p[0].done():
                    pend[mv[1]] = None
                    if p[1] is not None:
                        outs[mv[1]].append(p[1])
                    p[0].set_result(None)
        except Exception as e:  # noqa
            raised = "%s: %s" % (type(e).__name__, str(e)[:80])
        steps.append({"nready_before": nready, "out": [shown(b"".join(o).decode("latin1"), c.get("big")) for o in outs],
                      "pending": [p is not None and not p[0].done() for p in pend], "raised": raised,
                      "nready_after": len(loop._ready)})
    return {"status": "ok", "steps": steps, "expected": {str(k): [shown(x.decode("latin1"), c.get("big")) for x in v] for k, v in expected.items()}}
