"""C02 adapter: the real Buffer, or one of the three real receive loops (TCP server
handler, TCP client handler incl. for_blobs, TTY handler) fed from a fake reader."""
import asyncio

from harness import msggen


class FakeReader:
    def __init__(self, pieces, as_bytes, yields=False):
        self.pieces = list(pieces)
        self.as_bytes = as_bytes
        self.reads = 0
        self.yields = yields

    async def read(self, n=-1):
        if self.yields:
            await asyncio.sleep(0)      # data of two connections arrives in turns
        return self._next()

    async def readline(self):
        if self.yields:
            await asyncio.sleep(0)
        return self._next()

    def _next(self):
        if self.reads >= len(self.pieces):
            return b"" if self.as_bytes else ""
        p = self.pieces[self.reads]
        self.reads += 1
        return p.encode("latin1") if self.as_bytes else p


class FakeWriter:
    def write(self, data):
        pass

    async def drain(self):
        pass

    def close(self):
        pass


class StubRouter:
    def __init__(self, sink):
        self.sink = sink

    def register_client(self, c):
        pass

    def unregister_client(self, c):
        pass

    def process_message(self, message, sender=None):
        self.sink(message)


def run_loop(c):
    got, got2 = [], []
    nb = c.get("neighbour")
    reader = FakeReader(c["pieces"], c["transport"] != "tty", yields=bool(nb))
    reader2 = FakeReader(nb["pieces"], c["transport"] != "tty", yields=True) if nb else None

    def sink(m):
        got.append([reader.reads - 1, msggen.describe(m)])

    def make(reader, sink):
        if c["transport"] == "tcp-server":
            from indi.transport.server.tcp import ConnectionHandler
            return ConnectionHandler(reader, FakeWriter(), StubRouter(sink))
        elif c["transport"] in ("tcp-client", "tcp-client-blob"):
            from indi.transport.client.tcp import ConnectionHandler
            return ConnectionHandler(reader, FakeWriter(), sink, for_blobs=(c["transport"] == "tcp-client-blob"))
        from indi.transport.server.tty import ConnectionHandler
        return ConnectionHandler(StubRouter(sink), reader, FakeWriter())

    async def main():
        h = make(reader, sink)
        if nb:
            # a second connection of the same kind, served at the same time (it may end inside a message)
            h2 = make(reader2, lambda m: got2.append(msggen.describe(m)))
            if nb.get("first"):
                await asyncio.gather(h2.wait_for_messages(), h.wait_for_messages())
            else:
                await asyncio.gather(h.wait_for_messages(), h2.wait_for_messages())
        else:
            await h.wait_for_messages()
        return h.buffer.max_buffer_size_before_frontal_cleanup

    thr = asyncio.run(main())
    per = [[] for _ in c["pieces"]]
    for k, v in got:
        per[k].append(v)
    return {"status": "ok", "pieces": per, "raised": None, "thr_used": thr, "neighbour": got2 if nb else None}


def run_case(c):
    if c.get("transport"):
        return run_loop(c)
    from indi.transport.buffer import Buffer
    buf = Buffer()
    buf.max_buffer_size_before_frontal_cleanup = c["thr"]
    per = []
    raised = None
    for piece in c["pieces"]:
        got = []
        try:
            buf.append(piece)
            buf.process(got.append)
        except Exception as e:  # noqa
            raised = "%s: %s" % (type(e).__name__, str(e)[:80])
        per.append([msggen.describe(m) if m is not None else {"not-a-message": "None"} for m in got])
        if raised:
            break
    return {"status": "ok", "pieces": per, "raised": raised, "thr_used": c["thr"], "data_len": len(buf.data)}
