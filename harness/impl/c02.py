"""C02 adapter: the real Buffer, or one of the three real receive loops (TCP server
handler, TCP client handler incl. for_blobs, TTY handler) fed from a fake reader."""
import asyncio

from harness import msggen


class FakeReader:
    def __init__(self, pieces, as_bytes):
        self.pieces = list(pieces)
        self.as_bytes = as_bytes
        self.reads = 0

    async def read(self, n=-1):
        return self._next()

    async def readline(self):
        return self._next()

    def _next(self):
        if self.reads >= len(self.pieces):
            return b"" if self.as_bytes else ""
        p = self.pieces[self.reads]
        self.reads += 1
        return p.encode("latin1") if self.as_bytes else p


class FakeWriter:
    def write(self, data):
        pass

    async def drain(self):
        pass

    def close(self):
        pass


class StubRouter:
    def __init__(self, sink):
        self.sink = sink

    def register_client(self, c):
        pass

    def unregister_client(self, c):
        pass

    def process_message(self, message, sender=None):
        self.sink(message)


def run_loop(c):
    got = []
    reader = FakeReader(c["pieces"], c["transport"] != "tty")

    def sink(m):
        got.append([reader.reads - 1, msggen.describe(m)])

    async def main():
        if c["transport"] == "tcp-server":
            from indi.transport.server.tcp import ConnectionHandler
            h = ConnectionHandler(reader, FakeWriter(), StubRouter(sink))
        elif c["transport"] in ("tcp-client", "tcp-client-blob"):
            from indi.transport.client.tcp import ConnectionHandler
            h = ConnectionHandler(reader, FakeWriter(), sink, for_blobs=(c["transport"] == "tcp-client-blob"))
        else:
            from indi.transport.server.tty import ConnectionHandler
            h = ConnectionHandler(StubRouter(sink), reader, FakeWriter())
        await h.wait_for_messages()
        return h.buffer.max_buffer_size_before_frontal_cleanup

    thr = asyncio.run(main())
    per = [[] for _ in c["pieces"]]
    for k, v in got:
        per[k].append(v)
    return {"status": "ok", "pieces": per, "raised": None, "thr_used": thr}


def run_case(c):
    if c.get("transport"):
        return run_loop(c)
    from indi.transport.buffer import Buffer
    buf = Buffer()
    buf.max_buffer_size_before_frontal_cleanup = c["thr"]
    per = []
    raised = None
    for piece in c["pieces"]:
        got = []
        try:
            buf.append(piece)
            buf.process(got.append)
        except Exception as e:  # noqa
            raised = "%s: %s" % (type(e).__name__, str(e)[:80])
        per.append([msggen.describe(m) if m is not None else {"not-a-message": "None"} for m in got])
        if raised:
            break
    return {"status": "ok", "pieces": per, "raised": raised, "thr_used": c["thr"], "data_len": len(buf.data)}
