"""Router adapter: real Router, real Driver instances (distinct classes) and a
catch-all device as devices, recording clients; one observation per operation."""
from harness import msggen

_classes = {}


def driver_class(name):
    from indi.device import Driver
    if name not in _classes:
        _classes[name] = type("Drv_" + name, (Driver,), {"name": name})
    return _classes[name]


def run_case(c):
    from indi.routing import Router, Client, Device
    log = []

    nested = [0]

    class RecClient(Client):
        def __init__(self, i):
            self.i = i

        def message_from_device(self, message):
            if not nested[0]:
                log.append(["c", self.i])

    def answer(dev, name):
        # a real driver answers while the request is still being routed (getProperties -> definitions): the router is
        # re-entered from inside message_from_client.  What that inner routing delivers is not this operation's.
        from indi.message import DefTextVector
        nested[0] += 1
        try:
            router.process_message(DefTextVector(device=name or "A", name="ANSWER", state="Ok", perm="ro"), sender=dev)
        finally:
            nested[0] -= 1

    class CatchAll(Device):
        def __init__(self, i):
            self.i = i

        def accepts(self, device):
            return True

        def message_from_client(self, message):
            if not nested[0]:
                log.append(["d", self.i])
                if self.i % 2 == 0:
                    answer(self, None)

    router = Router()
    objs = {}
    ghosts = {}
    per_op = []
    for op in c["ops"]:
        del log[:]
        try:
            if op[0] == "regdev":
                if op[1] not in objs:
                    if op[2] is None:
                        objs[op[1]] = CatchAll(op[1])
                    else:
                        d = driver_class(op[2])()

                        def handed(m, i=op[1], d=d, name=op[2]):
                            if not nested[0]:
                                log.append(["d", i])
                                if i % 2 == 0:
                                    answer(d, name)
                        d.message_from_client = handed
                        objs[op[1]] = d
                router.register_device(objs[op[1]])
            elif op[0] == "regcl":
                if op[1] not in objs:
                    objs[op[1]] = RecClient(op[1])
                router.register_client(objs[op[1]])
            elif op[0] == "unreg":
                if op[1] not in objs:
                    objs[op[1]] = RecClient(op[1])
                router.unregister_client(objs[op[1]])
            elif op[0] == "send":
                sender = None
                if op[1] is not None:
                    # an endpoint that was never registered is some other object
                    sender = objs[op[1]] if op[1] in objs else ghosts.setdefault(op[1], object())
                router.process_message(msggen.build(op[2]), sender=sender)
            per_op.append({"out": sorted(log), "raised": None})
        except Exception as e:  # noqa
            per_op.append({"out": sorted(log), "raised": "%s: %s" % (type(e).__name__, str(e)[:100])})
    ids = {id(o): i for i, o in objs.items()}
    return {"status": "ok", "ops": per_op,
            "clients": sorted(ids.get(id(x), -1) for x in router.clients),
            "policy_rows": sorted(ids.get(id(x), -1) for x in router.blob_routing)}
