"""Client adapter: the library's BaseClient / SnoopingClient / network client handler fed
with a stream of server messages, with callbacks registered and removed along the way."""
import asyncio

from harness import msggen


def cval(x):
    from indi.device import values
    if isinstance(x, values.BLOB):
        return ["blob", list(x.binary), x.format]
    return ["raw", x]


def public_view(client):
    out = []
    for dn in client.list_devices():
        dev = client[dn]
        vs = []
        for vn in dev.list_vectors():
            v = dev[vn]
            kind = type(v).__name__.replace("Vector", "")
            es = [[en, v[en].label, cval(v[en].value)] for en in v.list_elements()]
            vs.append([vn, kind, v.group, v.label, v.state, es])
        out.append([dn, vs])
    return out


def describe_event(ev):
    from indi.client import events
    d = ev.device.name if ev.device else None
    v = ev.vector.name if ev.vector else None
    if isinstance(ev, events.ValueUpdate):
        return ["value", d, v, ev.element.name, cval(ev.old_value), cval(ev.new_value)]
    if isinstance(ev, events.StateUpdate):
        return ["state", d, v, ev.old_state, ev.new_state]
    if isinstance(ev, events.DefinitionUpdate):
        return ["def", d, v]
    return ["other", type(ev).__name__]


def run_case(c):
    from indi.client.client import BaseClient
    from indi.client import events
    from indi.message import IndiMessage
    etype = {"any": events.BaseEvent, "def": events.DefinitionUpdate, "value": events.ValueUpdate, "state": events.StateUpdate}
    log, sent = [], []

    async def main():
        mode = c.get("mode", "direct")
        if mode == "snoop":
            from indi.device.snoop import SnoopingClient
            from indi.routing import Router

            class R(Router):
                def process_message(self, message, sender=None):
                    if sender is client:
                        sent.append(msggen.describe(message))
                    else:
                        super().process_message(message, sender)
            router = R()
            client = SnoopingClient(router)
            router.register_client(client)
            router.process_message  # noqa
        else:
            class C(BaseClient):
                def send_message(self, msg):
                    sent.append(msggen.describe(msg))
            client = C()
        uuids = {}
        per_op = []
        stopped = None

        def make_cb(cb):
            def record(ev):
                log.append([cb["id"], describe_event(ev)])
            if cb.get("coro"):
                async def f(ev):
                    record(ev)
            else:
                def f(ev):
                    record(ev)
                    if cb.get("raises"):
                        if cb["id"] % 3 == 0:
                            # what a callback that asks a cancelled future for its result raises: not an Exception
                            raise asyncio.CancelledError("callback %d" % cb["id"])
                        raise RuntimeError("callback %d" % cb["id"])
                # an application may register any callable: the shape follows from the id, so
                # that the case itself (and the model's input) stays as it is
                shape = cb["id"] % 4
                if shape == 1:
                    class Owner:
                        def on_event(self, ev):
                            f(ev)
                    return Owner().on_event
                if shape == 2:
                    import functools
                    return functools.partial(lambda tag, ev: f(ev), "cb")
                if shape == 3:
                    class Listener:
                        def __call__(self, ev):
                            f(ev)
                    return Listener()
            return f

        if mode == "tcp":
            from indi.transport.client.tcp import ConnectionHandler
            pieces = list(c["pieces"])

            class Reader:
                async def read(self, n=-1):
                    return pieces.pop(0).encode("latin1") if pieces else b""

            class Writer:
                def write(self, d):
                    pass

                async def drain(self):
                    pass

                def close(self):
                    pass
            for op in c["ops"]:
                if op[0] == "on":
                    cb = op[1]
                    uuids[cb["id"]] = client.onevent(callback=make_cb(cb), device=cb["dev"], vector=cb["vec"], element=cb["elem"],
                                                     event_type=etype[cb["type"]])
            from indi.transport.client import tcp as ctcp
            real_open = asyncio.open_connection

            async def pipe_open(address, port, *a, **kw):
                return Reader(), Writer()
            asyncio.open_connection = pipe_open
            try:
                h = await ctcp.TCP("server.invalid", 7624).connect(client.process_message, for_blobs=c.get("for_blobs", False))
            finally:
                asyncio.open_connection = real_open
            try:
                await h.wait_for_messages()
            except Exception as e:  # noqa
                stopped = "%s: %s" % (type(e).__name__, str(e)[:100])
            for _ in range(3):
                await asyncio.sleep(0)
            return {"status": "ok", "ops": None, "log": list(log), "sent": list(sent), "view": public_view(client), "stopped": stopped,
                    "callbacks_left": len(client.callbacks)}
        for op in c["ops"]:
            del log[:]
            nsent = len(sent)
            raised = None
            try:
                if op[0] == "recv":
                    m = msggen.build(op[1])
                    if op[1].get("via") == "wire":
                        m = IndiMessage.from_string(m.to_string())
                    if mode == "snoop":
                        router.process_message(m, sender=None)
                    else:
                        client.process_message(m)
                elif op[0] == "on":
                    cb = op[1]
                    uuids[cb["id"]] = client.onevent(callback=make_cb(cb), device=cb["dev"], vector=cb["vec"], element=cb["elem"],
                                                     event_type=etype[cb["type"]])
                elif op[0] == "rmid":
                    client.rmonevent(uuid=uuids.get(op[1]))
                elif op[0] == "rmcrit":
                    client.rmonevent(device=op[1], vector=op[2], element=op[3], event_type=etype[op[4]] if op[4] else None)
            except Exception as e:  # noqa
                raised = "%s: %s" % (type(e).__name__, str(e)[:100])
            sync = list(log)
            del log[:]
            for _ in range(3):
                await asyncio.sleep(0)
            per_op.append({"log": sync, "after": list(log), "sent": sent[nsent:], "raised": raised, "view": public_view(client)})
        return {"status": "ok", "ops": per_op, "view": public_view(client), "callbacks_left": len(client.callbacks), "stopped": None}

    return asyncio.run(main())
