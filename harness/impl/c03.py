"""C03 adapter: real to_string / from_string on generated messages, on the model's
bytes and on foreign spellings; ET.fromstring on XML soup."""
import xml.etree.ElementTree as ET

from harness import msggen


def tree_of(e):
    return [e.tag, sorted([k, v] for k, v in e.attrib.items()), e.text or "", [tree_of(k) for k in e]]


def parse_view(doc):
    from indi.message import IndiMessage
    try:
        return msggen.describe(IndiMessage.from_string(doc))
    except Exception as e:  # noqa
        return {"error": "%s: %s" % (type(e).__name__, str(e)[:80])}


def run_case(c):
    from indi.message import IndiMessage
    if c["type"] == "xml":
        try:
            return {"status": "ok", "xml": 0, "tree": tree_of(ET.fromstring(c["doc"]))}
        except ET.ParseError as e:
            return {"status": "ok", "xml": 1, "error": str(e)[:60]}
    obj = msggen.build(c["msg"])
    data = obj.to_string()
    doc = data.decode("latin1")
    out = {"status": "ok", "doc": doc, "ascii": all(b < 128 for b in data),
           "order": [k for k in vars(obj) if k not in ("value", "children")],
           "child_order": [[k for k in vars(ch) if k != "value"] for ch in getattr(obj, "children", [])]}
    try:
        back = IndiMessage.from_string(data)
        out["reparsed"] = msggen.describe(back)
        out["rebytes_equal"] = back.to_string() == data
        out["eq"] = bool(back == IndiMessage.from_string(data))
    except Exception as e:  # noqa
        out["reparsed"] = {"error": "%s: %s" % (type(e).__name__, str(e)[:80])}
        out["rebytes_equal"] = None
    out["from_model_doc"] = parse_view(c["model_doc"]) if c.get("model_doc") else None
    out["from_foreign"] = [parse_view(d) for d in c["foreign"]]
    return out
