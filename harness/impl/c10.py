"""C10 adapter: real num_to_str / str_to_num / checks.number."""
from fractions import Fraction


def val(x):
    return float.fromhex(x) if isinstance(x, str) else x


def out(v):
    if isinstance(v, bool) or v is None:
        return {"type": type(v).__name__}
    if isinstance(v, int):
        return {"type": "int", "frac": [v, 1]}
    if isinstance(v, float):
        if v != v or v in (float("inf"), float("-inf")):
            return {"type": "float-nonfinite"}
        f = Fraction(v)
        return {"type": "float", "frac": [f.numerator, f.denominator], "negzero": (v == 0 and str(v)[0] == "-")}
    return {"type": type(v).__name__}


def accepted(s):
    from indi.message import checks
    try:
        checks.number(s)
        return True
    except ValueError:
        return False


def parse(s, fmt):
    from indi.device import values
    try:
        return out(values.str_to_num(s, fmt))
    except Exception as e:  # noqa
        return {"error": type(e).__name__}


_drv = []
SENTINEL = 424242.125


def element_path(s):
    """the text as a peer sends it: an XML newNumberVector through the library's parser to a driver's number element"""
    if any((ord(ch) < 32 and ch not in "\t\n\r") or 0xD800 <= ord(ch) <= 0xDFFF or ord(ch) in (0xFFFE, 0xFFFF) for ch in s):
        return {"skipped": True}
    from xml.sax.saxutils import escape
    from indi.message import IndiMessage
    if not _drv:
        from indi.device import Driver
        from indi.device.properties import Group, Number, NumberVector

        class Router:
            def register_device(self, d):
                pass

            def process_message(self, msg, sender=None):
                pass
        cls = type("NumDrv", (Driver,), {"name": "NUMDEV", "main": Group("MAIN", vectors={
            "nv": NumberVector("NV", elements={"e": Number("E", default=0, format="%f"), "m": Number("M", default=0, format="%.6m"),
                                               "d": Number("D", default=0, format="%d")})})})
        _drv.append(cls(router=Router()))
    drv = _drv[0]
    els = [drv.main.nv._elements["e"], drv.main.nv._elements["m"], drv.main.nv._elements["d"]]
    for el in els:
        el._value = SENTINEL
    xml = ('<newNumberVector device="NUMDEV" name="NV"><oneNumber name="E">%s</oneNumber><oneNumber name="M">%s</oneNumber><oneNumber name="D">%s</oneNumber></newNumberVector>'
           % (escape(s), escape(s), escape(s)))
    try:
        msg = IndiMessage.from_string(xml)
    except Exception:  # noqa
        return {"rejected": True}
    try:
        drv.message_from_client(msg)
    except Exception as e:  # noqa
        return {"raised": "%s: %s" % (type(e).__name__, str(e)[:80])}
    res = []
    for el in els:
        res.append({"unchanged": True} if el._value == SENTINEL else out(el._value))
    return {"values": res}


def run_case(c):
    from indi.device import values
    if c["type"] == "render":
        try:
            s = values.num_to_str(val(c["value"]), c["fmt"])
        except Exception as e:  # noqa
            return {"status": "ok", "raised": "%s: %s" % (type(e).__name__, str(e)[:80])}
        if not isinstance(s, str):
            return {"status": "ok", "raised": "returned %r" % (s,)}
        return {"status": "ok", "text": s, "valid": accepted(s), "back": parse(s, c["fmt"]),
                "back_other": parse(s, "%f" if "m" in c["fmt"] else "%.6m")}
    s = c["text"]
    return {"status": "ok", "valid": accepted(s), "as_f": parse(s, "%f"), "as_m": parse(s, "%.3m"), "as_m9": parse(s, "%12.9m"), "as_d": parse(s, "%d"), "as_d5": parse(s, "%+05d"),
            "as_elem": element_path(s)}
