"""C10 adapter: real num_to_str / str_to_num / checks.number."""
from fractions import Fraction


def val(x):
    return float.fromhex(x) if isinstance(x, str) else x


def out(v):
    if isinstance(v, bool) or v is None:
        return {"type": type(v).__name__}
    if isinstance(v, int):
        return {"type": "int", "frac": [v, 1]}
    if isinstance(v, float):
        if v != v or v in (float("inf"), float("-inf")):
            return {"type": "float-nonfinite"}
        f = Fraction(v)
        return {"type": "float", "frac": [f.numerator, f.denominator], "negzero": (v == 0 and str(v)[0] == "-")}
    return {"type": type(v).__name__}


def accepted(s):
    from indi.message import checks
    try:
        checks.number(s)
        return True
    except ValueError:
        return False


def parse(s, fmt):
    from indi.device import values
    try:
        return out(values.str_to_num(s, fmt))
    except Exception as e:  # noqa
        return {"error": type(e).__name__}


def run_case(c):
    from indi.device import values
    if c["type"] == "render":
        try:
            s = values.num_to_str(val(c["value"]), c["fmt"])
        except Exception as e:  # noqa
            return {"status": "ok", "raised": "%s: %s" % (type(e).__name__, str(e)[:80])}
        if not isinstance(s, str):
            return {"status": "ok", "raised": "returned %r" % (s,)}
        return {"status": "ok", "text": s, "valid": accepted(s), "back": parse(s, c["fmt"]),
                "back_other": parse(s, "%f" if "m" in c["fmt"] else "%.6m")}
    s = c["text"]
    return {"status": "ok", "valid": accepted(s), "as_f": parse(s, "%f"), "as_m": parse(s, "%.3m"), "as_m9": parse(s, "%12.9m")}
