"""Buffer adapter: the real Buffer fed piece by piece; the answers of the two
parsers it consults are recorded (prefix -> not xml / invalid / message k)."""
from harness import msggen


class Recorder:
    def __init__(self, bufmod):
        self.table = []          # [prefix, code, id]
        self.by_obj = {}
        self.sources = {}
        self.bufmod = bufmod
        self.ET = bufmod.ET
        self.IM = bufmod.IndiMessage
        self.pending_xml = None

    def install(self):
        rec = self

        class ETProxy:
            ParseError = rec.ET.ParseError

            @staticmethod
            def fromstring(s, *a, **k):
                try:
                    r = rec.ET.fromstring(s, *a, **k)
                except rec.ET.ParseError:
                    rec.table.append([s, 0, 0])
                    raise
                rec.pending_xml = s
                return r

            def __getattr__(self, n):
                return getattr(rec.ET, n)

        class IMProxy:
            @staticmethod
            def from_string(s):
                try:
                    m = rec.IM.from_string(s)
                except Exception:
                    rec.table.append([s, 1, 0])
                    raise
                i = len(rec.table)
                rec.table.append([s, 2, i])
                rec.by_obj[id(m)] = i
                rec.sources[i] = s
                rec.keep = getattr(rec, "keep", []) + [m]
                return m

            @staticmethod
            def all_message_classes():
                return rec.IM.all_message_classes()

            def __getattr__(self, n):
                return getattr(rec.IM, n)

        self.bufmod.ET = ETProxy()
        self.bufmod.IndiMessage = IMProxy()

    def uninstall(self):
        self.bufmod.ET = self.ET
        self.bufmod.IndiMessage = self.IM


def run_case(c):
    import indi.transport.buffer as bufmod
    rec = Recorder(bufmod)
    rec.install()
    try:
        buf = bufmod.Buffer()
        buf.max_buffer_size_before_frontal_cleanup = c["thr"]
        per_piece = []
        raised = None
        for piece in c["pieces"]:
            got = []
            try:
                buf.append(piece)
                buf.process(got.append)
            except Exception as e:  # noqa
                raised = "%s: %s" % (type(e).__name__, str(e)[:80])
            ids, views = [], []
            for m in got:
                ids.append(rec.by_obj.get(id(m), -1))
                try:
                    views.append(msggen.describe(m))
                except Exception:
                    views.append({"not-a-message": repr(m)[:60]})
            per_piece.append({"ids": ids, "views": views})
            if raised:
                break
        return {"status": "ok", "pieces": per_piece, "raised": raised, "data_len": len(buf.data),
                "table": rec.table, "sources": {str(k): v for k, v in rec.sources.items()},
                "tags": list(buf.allowed_tags)}
    finally:
        rec.uninstall()
