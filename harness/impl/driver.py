"""Driver adapter: real Driver subclasses generated from an abstract definition
(one Python class per inheritance level), driven through their public API;
every published message and every handler invocation is recorded."""
import asyncio

from harness import drvgen, msggen

_n = [0]


class FakeRouter:
    def __init__(self, log):
        self.log = log

    def register_device(self, d):
        pass

    def process_message(self, msg, sender=None):
        self.log.append(["pub", strip_ts(msggen.describe(msg))])


def strip_ts(view):
    view["attrs"].pop("timestamp", None)
    return view


def py_value(kind, x, keep=None, key=None):
    from indi.device import values
    if kind == "BLOB" and x is not None:
        if keep is not None and key in keep and len(x[0]) % 2 == 1:
            # a frame buffer object that is filled again and published again (handler-free devices only:
            # an object compared with itself raises no Change event)
            b = keep[key]
            b.binary, b.format = bytes(x[0]), x[1]
            return b
        b = values.BLOB(bytes(x[0]), x[1])
        if keep is not None:
            keep[key] = b
        return b
    return x


def build_twin(defn, base_drv, real_router):
    """a driver built from the same declarations as base_drv: a subclass that only changes the name"""
    _n[0] += 1
    cls = type("Twin%d" % _n[0], (type(base_drv),), {"name": defn["name"]})
    return cls(router=real_router)


def build_class(defn, log, real_router=None):
    """returns an instance of the most derived class"""
    from indi.device import Driver
    from indi.device import properties as P
    from indi.device.events import on, Write, Read, Change
    _n[0] += 1
    etype = {"write": Write, "read": Read, "change": Change}
    vclass = {"Text": P.TextVector, "Number": P.NumberVector, "Switch": P.SwitchVector, "Light": P.LightVector, "BLOB": P.BLOBVector}
    eclass = {"Text": P.Text, "Number": P.Number, "Switch": P.Switch, "Light": P.Light, "BLOB": P.BLOB}
    base = Driver
    kinds_of = {}
    for li, lv in enumerate(defn["levels"]):
        ns = {"name": defn["name"]}
        pending = []
        for g in lv["groups"]:
            vecs = {}
            for v in g["vectors"]:
                elems = {}
                for e in v["elements"]:
                    kw = {"label": e["label"], "enabled": e["enabled"]}
                    if e["default"] is not None:
                        kw["default"] = py_value(v["kind"], e["default"])
                    if v["kind"] == "Number":
                        kw.update(format=e["fmt"], min=e["min"], max=e["max"], step=e["step"])
                    ed = eclass[v["kind"]](e["name"], **kw)
                    elems[e["key"]] = ed
                    for h in e["handlers"]:
                        pending.append((ed, h, v["kind"]))
                kw = {"label": v["label"], "state": v["state"], "enabled": v["enabled"], "elements": elems}
                if v["kind"] != "Light":
                    kw.update(perm=v["perm"], timeout=v["timeout"])
                if v["kind"] == "Switch":
                    kw["rule"] = v["rule"]
                vecs[v["key"]] = vclass[v["kind"]](v["name"], **kw)
                kinds_of[v["name"]] = v["kind"]
            ns[g["key"]] = P.Group(g["name"], enabled=g["enabled"], vectors=vecs)
        # handlers: one method per subscription, or - for some neighbours with different (element, event) pairs and the
        # same nature - ONE method carrying two stacked @on(...) decorators
        pending.sort(key=lambda t: t[1]["id"])
        k = 0
        while k < len(pending):
            ed, h, kind = pending[k]
            nxt = pending[k + 1] if k + 1 < len(pending) else None
            if (nxt is not None and h["id"] % 3 == 0 and nxt[1]["id"] == h["id"] + 1 and bool(nxt[1].get("coro")) == bool(h.get("coro"))
                    and (nxt[0] is not ed or nxt[1]["event"] != h["event"])):
                ns["h_%04d" % h["id"]] = make_stacked_handler(on, etype, [(ed, h, kind), nxt], log)
                k += 2
            else:
                ns["h_%04d" % h["id"]] = make_handler(on, etype, ed, h, kind, log)
                k += 1
        base = type("Gen%d_%d" % (_n[0], li), (base,), ns)
        if li + 1 < len(defn["levels"]) and (_n[0] + li) % 2 == 0:
            # an application may run the base driver as well: build one (on a router of its own) before the derived class is used
            base(router=FakeRouter([]))
    inst = base(router=real_router if real_router is not None else FakeRouter(log))
    return inst, kinds_of


def make_stacked_handler(on, etype, subs, log):
    """one method subscribed twice: @on(e1, T1) @on(e2, T2) def handler(self, event)"""
    plain = {}
    for edef, h, kind in subs:
        plain[(id(edef), etype[h["event"]])] = make_handler(lambda *a: (lambda f: f), etype, edef, h, kind, log)
    coro = bool(subs[0][1].get("coro"))

    def which(event):
        return plain[(id(event.element._definition), type(event))]
    if coro:
        async def handler(self, event):
            await which(event)(self, event)
    else:
        def handler(self, event):
            which(event)(self, event)
    handler.__name__ = "h_%04d" % subs[0][1]["id"]
    fn = handler
    for edef, h, kind in reversed(subs):
        fn = on(edef, etype[h["event"]])(fn)
    return fn


def make_handler(on, etype, edef, h, kind, log):
    hid = h["id"]

    def record(tagname, event):
        old = getattr(event, "old_value", None)
        new = getattr(event, "new_value", None)
        ev = h["event"]
        log.append([tagname, hid,
                    None if ev != "change" else drvgen.canon_value(kind, old),
                    None if ev == "read" else drvgen.canon_value(kind, new)])

    if h.get("coro"):
        async def handler(self, event):
            record("ran", event)
    else:
        def handler(self, event):
            record("call", event)
            if h.get("veto"):
                event.prevent_default = True
            if h.get("refresh") is not None:
                event.element.reset_value(py_value(kind, h["refresh"]))
    handler.__name__ = "h_%04d" % hid
    return on(edef, etype[h["event"]])(handler)


def snapshot(drv, kinds_of):
    out = []
    for gk, g in drv._groups.items():
        vs = []
        for vk, v in g.vectors.items():
            kind = kinds_of[v.name]
            es = [[e.name, bool(e.enabled), drvgen.canon_value(kind, e._value)] for ek, e in v._elements.items()]
            vs.append([v.name, bool(v._enabled), str(v._state), es])
        out.append([gk, bool(g.enabled), vs])
    return out


def apply_op(drv, kinds_of, op, keep=None):
    from indi.message import IndiMessage
    vec = drv._vectors.get(op[1]) if op[0] != "client" and op[0] != "engrp" else None
    if op[0] == "assign":
        el = list(vec._elements.values())[op[2]]
        if kinds_of[op[1]] == "Switch" and op[3] in (True, False):
            el.bool_value = op[3]
        else:
            el.value = py_value(kinds_of[op[1]], op[3], keep, (id(drv), op[1], op[2]))
    elif op[0] == "setvalue":
        list(vec._elements.values())[op[2]].set_value(py_value(kinds_of[op[1]], op[3], keep, (id(drv), op[1], op[2])))
    elif op[0] == "selected":
        names = [list(vec._elements.values())[i].name for i in op[2]]
        vec.selected_values = names
    elif op[0] == "state":
        vec.state_ = op[2]
    elif op[0] == "envec":
        vec.enabled = op[2]
    elif op[0] == "engrp":
        drv._groups[op[1]].enabled = op[2]
    elif op[0] == "enelem":
        list(vec._elements.values())[op[2]].enabled = op[3]
    elif op[0] == "client":
        if op[1].get("via") == "wire":
            msg = IndiMessage.from_string(msggen.build(op[1]).to_string())
        else:
            msg = msggen.build(op[1])
        drv.message_from_client(msg)


def run_case(c):
    log = []

    async def main():
        drv, kinds_of = build_class(c["defn"], log)
        per_op = []
        for op in c["ops"]:
            del log[:]
            raised = None
            try:
                apply_op(drv, kinds_of, op)
            except Exception as e:  # noqa
                raised = "%s: %s" % (type(e).__name__, str(e)[:100])
            sync = list(log)
            del log[:]
            for _ in range(3):
                await asyncio.sleep(0)
            per_op.append({"trace": sync, "after": list(log), "raised": raised, "state": snapshot(drv, kinds_of)})
        return {"status": "ok", "ops": per_op, "state": snapshot(drv, kinds_of), "name": drv.name}

    return asyncio.run(main())
