"""System adapter: generated drivers on a real Router, network clients (the library's
Client with its control and BLOB connection handlers, joined to the library's TCP server
connection handlers by in-memory byte pipes that fragment the streams) and in-process
snooping clients; a history of driver-side and client-side operations, settled after
each one."""
import asyncio
import random

from harness import drvgen, msggen
from harness.impl import driver as drvimpl
from harness.impl.client import public_view


class Activity:
    n = 0
    long = []          # messages longer than the junk-recovery threshold written to a link whose receiver has the threshold enabled


class Reader:
    def __init__(self):
        self.q = asyncio.Queue()
        self.left = b""
        self.eof = False

    async def read(self, n=-1):
        if not self.left:
            if self.eof:
                return b""
            self.left = await self.q.get()
            if self.left == b"":
                self.eof = True
                return b""
        Activity.n += 1
        out, self.left = (self.left, b"") if n < 0 else (self.left[:n], self.left[n:])
        return out


class Writer:
    def __init__(self, peer, frag, rng, threshold_link=True, label=""):
        self.peer, self.frag, self.rng = peer, frag, rng
        self.closed = False
        self.bytes = 0
        self.threshold_link, self.label = threshold_link, label

    def write(self, data):
        Activity.n += 1
        data = bytes(data)
        self.bytes += len(data)
        if self.threshold_link and len(data) > 2048:
            Activity.long.append([self.label, len(data)])
        i = 0
        if self.frag == "tail1024" and len(data) % 1024:
            # the reads of this write: a short one first, then full 1024-byte reads up to its very end
            self.peer.q.put_nowait(data[:len(data) % 1024])
            i = len(data) % 1024
        while i < len(data):
            if self.frag == "whole":
                k = len(data)
            elif self.frag == "one":
                k = 1
            elif self.frag in ("1024", "tail1024"):
                k = 1024
            elif self.frag == "big":
                k = self.rng.choice([1, 511, 1024, 4096, 65536])
            else:
                k = self.rng.choice([1, 2, 3, 7, 17, 100, 1023, 1024, 1025, 5000])
            self.peer.q.put_nowait(data[i:i + k])
            i += k

    async def drain(self):
        await asyncio.sleep(0)      # a reader that is not infinitely fast: the sending task yields here

    def close(self):
        if not self.closed:
            self.closed = True
            self.peer.q.put_nowait(b"")


class Conn:
    """stands for indi.transport.client.TCP: connect() joins a client-side handler to a fresh server-side handler"""

    def __init__(self, system, label, frag_up, frag_down):
        self.system, self.label, self.frag_up, self.frag_down = system, label, frag_up, frag_down
        self.handler = None
        self.kinds = []

    async def connect(self, callback, for_blobs=False):
        from indi.transport.client.tcp import ConnectionHandler as CH
        from indi.transport.server.tcp import ConnectionHandler as SH
        to_server, to_client = Reader(), Reader()
        # every server-side receive buffer has the threshold; on the client side only the control connection has
        cw = Writer(to_server, self.frag_up, self.system.rng, True, self.label + ":up")
        sw = Writer(to_client, self.frag_down, self.system.rng, not for_blobs, self.label + ":down")

        def cb(msg):
            self.kinds.append(type(msg).__name__)
            callback(msg)
        # through the library's own TCP.connect, with the socket replaced by the pipe
        from indi.transport.client import tcp as ctcp
        real_open = asyncio.open_connection

        async def pipe_open(address, port, *a, **kw):
            return to_client, cw
        asyncio.open_connection = pipe_open
        try:
            self.handler = await ctcp.TCP("server.invalid", 7624).connect(cb, for_blobs=for_blobs)
        finally:
            asyncio.open_connection = real_open
        self.server_task = asyncio.get_running_loop().create_task(SH.handler(self.system.router)(to_server, sw))
        self.cw, self.sw = cw, sw
        return self.handler


def py_write_value(kind, x, keep=None, key=None):
    from indi.device import values
    if kind == "BLOB":
        if keep is not None and key in keep and len(x[0]) % 2 == 1:
            b = keep[key]                      # the same object submitted again with other contents
            b.binary, b.format = bytes(x[0]), x[1]
            return b
        b = values.BLOB(bytes(x[0]), x[1])
        if keep is not None:
            keep[key] = b
        return b
    return x


class System:
    def __init__(self, c):
        from indi.routing import Router
        self.rng = random.Random(c.get("seed", 0))
        self.router = Router()
        self.log = []
        self.devs = []
        self.clients = []
        self.blobs = {}

    async def settle(self, limit=400000):
        quiet, last = 0, -1
        for _ in range(limit):
            await asyncio.sleep(0)
            if Activity.n == last:
                quiet += 1
                if quiet >= 6:
                    return True
            else:
                quiet, last = 0, Activity.n
        return False


def client_blob_sizes(client):
    return None


def run_case(c):
    async def main():
        from indi.client.client import Client
        from indi.device.snoop import SnoopingClient
        from indi.message import EnableBLOB
        s = System(c)
        for d in c["devices"]:
            drv, kinds_of = drvimpl.build_class(d, s.log, real_router=s.router)
            s.devs.append((drv, kinds_of))
        for cl in c["clients"]:
            if cl["kind"] == "net":
                ctl = Conn(s, "ctl", cl.get("up", "rand"), cl.get("down", "rand"))
                blob = Conn(s, "blob", cl.get("up", "rand"), cl.get("down", "rand"))
                client = Client(ctl, blob)
                client._conns = (ctl, blob)
                client._started = False
            else:
                client = SnoopingClient(s.router)
                s.router.register_client(client)
                client._conns = ()
            s.clients.append(client)
        steps = []

        def snap(note, raised=None, settled=True):
            steps.append({"op": note, "raised": raised, "settled": settled, "long": list(Activity.long),
                          "drivers": [drvimpl.snapshot(d, k) for d, k in s.devs],
                          "clients": [public_view(cl) for cl in s.clients],
                          "conn_kinds": [[list(cn.kinds) for cn in cl._conns] for cl in s.clients]})

        async def perform(op):
            if op[0] == "burst":
                gaps = op[2] if len(op) > 2 else []
                for k, sub in enumerate(op[1]):
                    await perform(sub)           # back to back, nothing is allowed to settle in between
                    for _ in range(gaps[k] if k < len(gaps) else 0):
                        await asyncio.sleep(0)   # ... but the loop may run a given number of iterations
            elif op[0] == "drv":
                d, k = s.devs[op[1]]
                drvimpl.apply_op(d, k, op[2], s.blobs)
            elif op[0] == "handshake":
                cl = s.clients[op[1]]
                if c["clients"][op[1]]["kind"] == "net" and not cl._started:
                    cl._started = True
                    await cl.start()
                else:
                    cl.handshake()
            elif op[0] == "enable":
                cl = s.clients[op[1]]
                msg = EnableBLOB(device=op[3], value=op[4])
                if c["clients"][op[1]]["kind"] == "net":
                    (cl.control_connection_handler if op[2] == "ctl" else cl.blob_connection_handler).send_message(msg)
                else:
                    cl.send_message(msg)
            elif op[0] == "write":
                cl = s.clients[op[1]]
                vec = cl[op[2]][op[3]]
                kind = type(vec).__name__.replace("Vector", "")
                for en, x in op[4]:
                    vec[en].value = py_write_value(kind, x, s.blobs, ("cl", op[1], op[2], op[3], en))
                vec.submit()

        def brief(op):
            if op[0] == "burst":
                return ["burst", [brief(o) for o in op[1]]]
            if op[0] == "write" and any(isinstance(x, list) and len(x[0]) > 64 for _, x in op[4]):
                return [op[0], op[1], op[2], op[3], "..."]
            if op[0] == "drv" and op[2][0] == "assign" and isinstance(op[2][3], list) and len(op[2][3][0]) > 64:
                return ["drv", op[1], ["assign", op[2][1], op[2][2], "... %d bytes" % len(op[2][3][0])]]
            return op

        for op in c["ops"]:
            raised = None
            del Activity.long[:]
            try:
                await perform(op)
            except Exception as e:  # noqa
                raised = "%s: %s" % (type(e).__name__, str(e)[:120])
            ok = await s.settle()
            snap(brief(op), raised, ok)
        alive = [[not cn.server_task.done() for cn in cl._conns] for cl in s.clients]
        for cl in s.clients:
            for cn in cl._conns:
                cn.cw.close()
        await s.settle()
        return {"status": "ok", "steps": steps, "alive": alive, "names": [d.name for d, _ in s.devs]}

    return asyncio.run(main())
