"""C18 adapter: session scripts of several connections on real TCP/TTY connection
handlers driven through fake streams inside a running event loop; faults injected at a
chosen step.  Steps: ["open", c, kind] ["peer", c, text] ["dev", blob?] ["fault", c, how]
["writefail", c] ["settle"]."""
import asyncio

from harness import msggen

GETP = '<getProperties version="1.7"/>'


def run_case(c):
    return asyncio.run(main(c))


async def main(c):
    from indi.routing import Router, Device
    from indi.message import SetTextVector, SetBLOBVector
    from indi.message.one_parts import OneText, OneBLOB
    router = Router()

    class Poison(Device):
        def accepts(self, device):
            return True

        def message_from_client(self, message):
            name = getattr(message, "name", None)
            if name in ("ECHO", "ECHOPOISON"):      # the device answers while the message is being handled
                router.process_message(SetTextVector(device="CAM", name="T", state="Ok", children=[OneText(name="t", value="echo")]), sender=self)
            if name in ("POISON", "ECHOPOISON"):
                raise RuntimeError("handler exception injected")

    poison = Poison()
    router.register_device(poison)
    conns = {}
    steps = []

    class Conn:
        def __init__(self, cid, kind):
            self.cid, self.kind = cid, kind
            self.q = asyncio.Queue()
            self.received = []
            self.closed = False
            self.write_fails = False
            self.handler = None
            self.task = None

        # reader side
        async def read(self, n=-1):
            return await self._next(True)

        async def readline(self):
            return await self._next(False)

        async def _next(self, as_bytes):
            item = await self.q.get()
            if isinstance(item, Exception):
                raise item
            return item.encode("latin1") if as_bytes else item

        # writer side
        def write(self, data):
            if self.write_fails:
                raise ConnectionResetError("write error injected")
            if self.kind == "tty":
                self.received.append(data)
                f = asyncio.get_running_loop().create_future()
                f.set_result(None)
                return f
            self.received.append(bytes(data).decode("latin1"))

        async def drain(self):
            if self.write_fails:
                raise ConnectionResetError("drain error injected")

        def flush(self):
            f = asyncio.get_running_loop().create_future()
            f.set_result(None)
            return f

        def close(self):
            self.closed = True

    async def settle():
        for _ in range(8):
            await asyncio.sleep(0)

    def snapshot(note):
        ids = {id(x.handler): cid for cid, x in conns.items() if x.handler is not None}
        steps.append({"note": note,
                      "clients": sorted(ids.get(id(x), -1) for x in router.clients),
                      "rows": sorted(ids.get(id(x), -1) for x in router.blob_routing),
                      "closed": {str(k): v.closed for k, v in conns.items()},
                      "done": {str(k): (v.task.done() if v.task else None) for k, v in conns.items()},
                      "received": {str(k): len(v.received) for k, v in conns.items()},
                      "blobs": {str(k): sum(1 for r in v.received if "setBLOBVector" in r) for k, v in conns.items()}})

    def plain(st):
        """steps that need no waiting: may be put together in one burst, nothing runs in between"""
        if st[0] == "peer":
            conns[st[1]].q.put_nowait(st[2])
        elif st[0] == "dev":
            if st[1]:
                m = SetBLOBVector(device="CAM", name="IMG", state="Ok", children=[OneBLOB(name="b", size=3, format=".x", value="QUJD")])
            else:
                m = SetTextVector(device="CAM", name="T", state="Ok", children=[OneText(name="t", value="v")])
            router.process_message(m, sender=poison)
        elif st[0] == "fault":
            cn = conns[st[1]]
            how = st[2]
            if how == "eof":
                cn.q.put_nowait("")
            elif how == "read-error":
                cn.q.put_nowait(ConnectionResetError("reset injected"))
            elif how == "eof-in-message":
                cn.q.put_nowait('<newTextVector device="CAM" name="T"><oneText na')
                cn.q.put_nowait("")
            elif how == "junk-then-eof":
                cn.q.put_nowait("\x00\x01<<<garbage>>> </nope> &&& <defTextVector")
                cn.q.put_nowait("")
            elif how == "handler-exception":
                cn.q.put_nowait('<newTextVector device="CAM" name="POISON"><oneText name="t">x</oneText></newTextVector>')
            elif how == "echo-raise":
                cn.q.put_nowait('<newTextVector device="CAM" name="ECHOPOISON"><oneText name="t">x</oneText></newTextVector>')
        elif st[0] == "writefail":
            conns[st[1]].write_fails = True

    for st in c["script"]:
        if st[0] == "burst":
            for sub in st[1]:
                plain(sub)
        elif st[0] == "open":
            cn = Conn(st[1], st[2])
            conns[st[1]] = cn
            if st[2] == "tcp":
                from indi.transport.server.tcp import ConnectionHandler
                orig = ConnectionHandler.__init__

                def spy(self, *a, _cn=cn, _orig=orig, **k):
                    _orig(self, *a, **k)
                    _cn.handler = self
                ConnectionHandler.__init__ = spy
                try:
                    cn.task = asyncio.get_running_loop().create_task(ConnectionHandler.handler(router)(cn, cn))
                    await settle()
                finally:
                    ConnectionHandler.__init__ = orig
            else:
                from indi.transport.server.tty import ConnectionHandler
                cn.handler = ConnectionHandler(router, cn, cn)
                cn.task = asyncio.get_running_loop().create_task(cn.handler.handle())
        else:
            plain(st)
        await settle()
        snapshot(st)
    for cn in conns.values():
        if cn.task and not cn.task.done():
            cn.task.cancel()
    await settle()
    return {"status": "ok", "steps": steps}
