"""C09 adapter: a real Driver with one SwitchVector; client writes arrive as real
NewSwitchVector messages, driver-side operations use the public setters."""
_n = [0]


class FakeRouter:
    def __init__(self):
        self.sent = []

    def register_device(self, d):
        pass

    def process_message(self, msg, sender=None):
        self.sent.append(msg)


def make_driver(rule, init, rname="SW", hidden=None, veto=False):
    from indi.device import Driver
    from indi.device.properties import Group, Switch, SwitchVector
    _n[0] += 1
    hidden = hidden or [False] * len(init)
    elems = {"s%d" % i: Switch("S%d" % i, default="On" if v else "Off", enabled=not hidden[i]) for i, v in enumerate(init)}
    vec = SwitchVector("SWV", rule=rule, elements=elems)
    body = {"name": rname, "main": Group("MAIN", vectors={"swv": vec})}
    if veto:
        # the documented "ask the hardware, update on confirmation" pattern: the write is deferred, the property shown Busy
        from indi.device.events import Write, on

        def defer(self, event):
            event.prevent_default = True
            self.main.swv.state_ = "Busy"
        body["defer"] = on(list(elems.values()), Write)(defer)
    cls = type("SwDrv%d" % _n[0], (Driver,), body)
    router = FakeRouter()
    return cls(router=router), router


def state(drv):
    v = drv.main.swv
    return [v._elements["s%d" % i]._value == "On" for i in range(len(v._elements))]


def run_case(c):
    from indi.message import NewSwitchVector, SetSwitchVector, IndiMessage
    from indi.message.one_parts import OneSwitch
    hidden = c.get("hidden")
    drv, router = make_driver(c["rule"], c["init"], hidden=hidden, veto=bool(c.get("veto")))
    vec = drv.main.swv
    snaps = []
    if hidden:
        # with hidden switches an update lists the visible ones only: keep the whole state at the moment of each publication too
        plain = router.process_message

        def recording(msg, sender=None):
            plain(msg, sender=sender)
            if isinstance(msg, SetSwitchVector):
                snaps.append(state(drv))
        router.process_message = recording
    per_op = []
    for op in c["ops"]:
        del router.sent[:]
        del snaps[:]
        raised = None
        try:
            if op[0] == "assign":
                el = vec._elements["s%d" % op[1]]
                if op[3] == "bool":
                    el.bool_value = bool(op[2])
                else:
                    el.value = "On" if op[2] else "Off"
            elif op[0] == "write":
                # as it arrives from a peer: text on the wire, parsed by the library (values are fresh strings, not the constants)
                xml = '<newSwitchVector device="SW" name="SWV">%s</newSwitchVector>' % "".join(
                    '<oneSwitch name="S%d">%s</oneSwitch>' % (i, "On" if v else "Off") for i, v in op[1])
                drv.message_from_client(IndiMessage.from_string(xml))
            elif op[0] == "selected":
                names = ["S%d" % i for i in op[1]]
                if op[2] == "single":
                    vec.selected_value = names[0]
                else:
                    vec.selected_values = names
        except Exception as e:  # noqa
            raised = "%s: %s" % (type(e).__name__, str(e)[:100])
        pubs = []
        for m in router.sent:
            if isinstance(m, SetSwitchVector):
                pubs.append([ch.value == "On" for ch in m.children])
        if hidden:
            shown = [[x for x, h in zip(sn, hidden) if not h] for sn in snaps]
            per_op.append({"state": state(drv), "pubs": list(snaps), "raised": raised, "listed_ok": shown == pubs, "listed": pubs})
        else:
            per_op.append({"state": state(drv), "pubs": pubs, "raised": raised})
    return {"status": "ok", "ops": per_op}
