"""C07 adapter: a deployment of generated drivers on a real Router with a recording
client; histories, then a getProperties request sent through the router."""
import asyncio

from harness import drvgen, msggen
from harness.impl import driver as drvimpl


def roundtrip(msg):
    """does the library's own parser accept this emitted message and read it back unchanged?"""
    from indi.message import IndiMessage
    try:
        data = msg.to_string()
        back = IndiMessage.from_string(data)
    except Exception as e:  # noqa
        return "rejected by own parser: %s: %s" % (type(e).__name__, str(e)[:80])
    a, b = msggen.describe(msg), msggen.describe(back)

    def norm(v):
        v = dict(v)
        v["value"] = v["value"] or None
        if v["children"] is not None:
            v["children"] = [dict(c, value=(c["value"].strip() if c["value"] else None) or None) for c in v["children"]]
        return v
    if norm(a) != norm(b):
        return "read back differently: %s vs %s" % (str(norm(a))[:150], str(norm(b))[:150])
    if back.to_string() != data:
        return "re-serialisation differs"
    return None


def public_state(drv, kinds_of):
    out = []
    for vname, v in drv._vectors.items():
        kind = kinds_of[vname]
        d = v._definition
        out.append({"name": vname, "kind": kind, "enabled": bool(v.enabled), "state": str(v._state), "label": d.label,
                    "group": v.group.name, "perm": None if kind == "Light" else str(d.perm),
                    "timeout": None if kind == "Light" else str(d.timeout),
                    "rule": str(d.rule) if kind == "Switch" else None,
                    "elements": [{"name": e.name, "enabled": bool(e.enabled), "label": e._definition.label,
                                  "value": drvgen.canon_value(kind, e._value),
                                  "fmt": getattr(e._definition, "format", None)} for e in v._elements.values()]})
    return out


def run_case(c):
    from indi.routing import Router, Client
    from indi.message import GetProperties, EnableBLOB
    log = []

    class Rec(Client):
        def message_from_device(self, message):
            v = drvimpl.strip_ts(msggen.describe(message))
            log.append(["pub", v, roundtrip(message)])

    async def main():
        router = Router()
        client = Rec()
        router.register_client(client)
        devs = []
        for dd in c["devices"]:
            if dd.get("twin_of") is not None:
                drv, kinds_of = drvimpl.build_twin(dd["defn"], devs[dd["twin_of"]][0], router), devs[dd["twin_of"]][1]
            else:
                drv, kinds_of = drvimpl.build_class(dd["defn"], log, real_router=router)
            devs.append((drv, kinds_of, dd))
            # the recording client wants everything, BLOB updates included
            router.process_message(EnableBLOB(device=drv.name, value="Also"), sender=client)
        out = []
        for drv, kinds_of, dd in devs:
            per_op = []
            for op in dd["ops"]:
                del log[:]
                raised = None
                try:
                    drvimpl.apply_op(drv, kinds_of, op)
                except Exception as e:  # noqa
                    raised = "%s: %s" % (type(e).__name__, str(e)[:100])
                per_op.append({"trace": [[e[0], e[1]] for e in log], "rt": [e[2] for e in log if e[2]], "after": [], "raised": raised})
            out.append({"ops": per_op})
        before = [public_state(drv, k) for drv, k, _ in devs]
        del log[:]
        raised = None
        try:
            kw = {k: v for k, v in c["request"].items() if v is not None}
            router.process_message(GetProperties(version="1.7", **kw), sender=client)
        except Exception as e:  # noqa
            raised = "%s: %s" % (type(e).__name__, str(e)[:100])
        resp = [[e[0], e[1]] for e in log]
        rt = [e[2] for e in log if e[2]]
        for i, (drv, kinds_of, dd) in enumerate(devs):
            out[i]["state"] = drvimpl.snapshot(drv, kinds_of)
            out[i]["before"] = before[i]
            out[i]["name"] = drv.name
        return {"status": "ok", "devices": out, "responses": resp, "response_rt": rt, "request_raised": raised}

    return asyncio.run(main())
