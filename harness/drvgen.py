"""Abstract driver definitions, operations on them, and their encoding for the
model.  A definition is a chain of class levels (inheritance), each with groups
keyed by attribute name; the model sees the effective groups (every ancestor's
groups unless shadowed, bases first)."""
import base64
import math
from fractions import Fraction

from harness import msggen

KINDS = ["Text", "Number", "Switch", "Light", "BLOB"]
FMTS = ["%f", "%.2f", "%5.2f", "%d", "%.3m", "%.6m", "%10.9m", "%+.1f", "%08.3f", "%.5m"]
TEXTS = ["", "x", "hello world", "a<b & c>", 'q"uote', "é\U0001F600", "it's", "multi\nline"]
NUMS = [0.0, 1.0, -1.5, 12.5, -0.5, 0.25, 100, -7, 359.99999, 1e6, -0.004, 3.141592653589793]
BLOBS = [None, [[], ""], [[65, 66, 67], ".fits"], [list(range(256)), ".bin"], [[0, 255] * 40, ".z"]]


def gen_elem(rng, kind, i):
    e = {"key": "e%d" % i, "name": "E%d" % i, "label": rng.choice(["El %d" % i, "L<%d>" % i]), "enabled": rng.random() < 0.85,
         "fmt": "", "min": 0, "max": 0, "step": 0, "handlers": []}
    if kind == "Text":
        e["default"] = rng.choice(TEXTS)
    elif kind == "Number":
        e["default"] = rng.choice(NUMS)
        e["fmt"] = rng.choice(FMTS)
        e["min"], e["max"], e["step"] = rng.choice([(0, 0, 0), (-10, 10.5, 0.5), (0, 100, 1)])
    elif kind == "Switch":
        e["default"] = "Off"
    elif kind == "Light":
        e["default"] = rng.choice(msggen.STATES)
    else:
        e["default"] = None
    return e


def gen_vector(rng, kind, name):
    n = rng.randint(1, 3)
    v = {"key": name.lower(), "name": name, "label": rng.choice([name + " label", "V&" + name]), "kind": kind,
         "state": rng.choice(msggen.STATES), "perm": rng.choice(msggen.PERMS), "rule": rng.choice(msggen.RULES),
         "timeout": rng.choice([0, 60, 2.5]), "enabled": rng.random() < 0.8,
         "elements": [gen_elem(rng, kind, i) for i in range(n)]}
    if kind == "Switch" and v["rule"] != "AnyOfMany" and rng.random() < 0.8:
        v["elements"][rng.randrange(n)]["default"] = "On"
    if kind == "Switch" and v["rule"] == "AnyOfMany":
        for e in v["elements"]:
            e["default"] = rng.choice(["On", "Off"])
    return v


def gen_definition(rng, name, depth=None, kinds=None):
    depth = depth or rng.randint(1, 3)
    levels = []
    counter = [0]
    for lv in range(depth):
        groups = []
        for gi in range(rng.randint(1, 2) if lv else rng.randint(1, 3)):
            vecs = []
            for _ in range(rng.randint(1, 3)):
                counter[0] += 1
                kind = (kinds or KINDS)[(counter[0] - 1) % len(kinds or KINDS)] if rng.random() < 0.7 else rng.choice(kinds or KINDS)
                vecs.append(gen_vector(rng, kind, "V%d" % counter[0]))
            key = "g%d_%d" % (lv, gi)
            if lv and rng.random() < 0.25 and levels[-1]["groups"]:
                key = levels[-1]["groups"][0]["key"]       # shadow an inherited group
            groups.append({"key": key, "name": "Group %s" % key, "enabled": rng.random() < 0.8, "vectors": vecs})
        levels.append({"groups": groups})
    return {"name": name, "levels": levels}


def effective_groups(defn):
    out = {}
    for lv in defn["levels"]:
        for g in lv["groups"]:
            if g["key"] in out:
                # shadowing keeps the position of the inherited key (dict update semantics)
                out[g["key"]] = g
            else:
                out[g["key"]] = g
    return list(out.values())


def all_vectors(defn):
    seen = {}
    for g in effective_groups(defn):
        for v in g["vectors"]:
            seen[v["name"]] = (g, v)
    return seen


# ---------- values ----------

def enc_num(x):
    if x is None:
        return []
    neg = math.copysign(1, x) < 0 if isinstance(x, float) else x < 0
    f = Fraction(abs(x))
    return [[neg, str(f.numerator), str(f.denominator)]]


def enc_value(kind, x):
    if kind == "Text":
        return ["t", [] if x is None else [x]]
    if kind == "Number":
        return ["n", enc_num(x)]
    if kind == "Switch":
        return ["s", x == "On" or x is True]
    if kind == "Light":
        return ["l", x]
    return ["b", [] if x is None else [[bytes(x[0]), x[1]]]]


def dec_value(v):
    """model value sx -> canonical python (numbers as Fraction + sign of zero dropped)"""
    t, a = v
    if t == "t":
        return ["t", a[0] if a else None]
    if t == "n":
        if not a:
            return ["n", None]
        ng, p, q = a[0]
        f = Fraction(int(p), int(q))
        return ["n", str(-f if ng else f)]
    if t == "s":
        return ["s", bool(a)]
    if t == "l":
        return ["l", a]
    if not a:
        return ["b", None]
    return ["b", [[ord(c) for c in a[0][0]], a[0][1]]]


def canon_value(kind, x):
    """real value -> the same canonical form"""
    if kind == "Text":
        return ["t", x]
    if kind == "Number":
        return ["n", None if x is None else str(Fraction(x))]
    if kind == "Switch":
        return ["s", x == "On"]
    if kind == "Light":
        return ["l", x]
    if x is None:
        return ["b", None]
    return ["b", [list(x.binary), x.format]]


def pystr(x):
    return str(x)


def enc_handler(h, kind):
    return [h["id"], h["event"], bool(h.get("coro")), bool(h.get("veto")),
            [] if h.get("refresh") is None else [enc_value(kind, h["refresh"])]]


def enc_dev(defn):
    gs = []
    for g in effective_groups(defn):
        vs = []
        for v in g["vectors"]:
            es = [[e["key"], e["name"], e["label"], e["enabled"], enc_value(v["kind"], e["default"]), e["fmt"],
                   pystr(e["min"]), pystr(e["max"]), pystr(e["step"]), [enc_handler(h, v["kind"]) for h in e["handlers"]]]
                  for e in v["elements"]]
            vs.append([v["key"], v["name"], v["label"], v["kind"], v["state"], v["perm"], v["rule"], pystr(v["timeout"]),
                       v["enabled"], es])
        gs.append([g["key"], g["name"], g["enabled"], vs])
    return [defn["name"], gs]


def enc_op(defn, op):
    vecs = all_vectors(defn)
    if op[0] in ("assign", "setvalue"):
        kind = vecs[op[1]][1]["kind"]
        return [op[0], op[1], op[2], enc_value(kind, op[3])]
    if op[0] == "enelem":
        return ["enelem", op[1], op[2], op[3]]
    if op[0] in ("selected", "state", "envec", "engrp"):
        return [op[0], op[1], op[2]]
    if op[0] == "client":
        return ["client", msggen.sx_msg(op[1])]
    raise ValueError(op)


# ---------- operations ----------

def random_value(rng, kind):
    if kind == "Text":
        return rng.choice(TEXTS[1:] + [None])
    if kind == "Number":
        return rng.choice(NUMS + [rng.uniform(-100, 100), rng.randint(-1000, 1000)])
    if kind == "Switch":
        return rng.choice(["On", "Off"])
    if kind == "Light":
        return rng.choice(msggen.STATES)
    b = rng.choice(BLOBS[1:])
    return [b[0], b[1]]


def client_text_for(rng, kind, fmt):
    """a text a client may send for an element of this kind"""
    if kind == "Text":
        return rng.choice([t.strip() for t in TEXTS[1:]] + [None])
    if kind == "Switch":
        return rng.choice(["On", "Off"])
    return rng.choice(["0", "12", "-3", "1.5", "-0.25", "12:30", "-0:30", "10:20:30.5", "1 30", "7;15", "+5", ".5", "359:59:59.99"])


def new_message(rng, defn, vname, subset=None, device=None):
    g, v = all_vectors(defn)[vname]
    kind = v["kind"]
    idx = subset if subset is not None else sorted(rng.sample(range(len(v["elements"])), rng.randint(1, len(v["elements"]))))
    children = []
    for i in idx:
        e = v["elements"][i]
        if kind == "BLOB":
            data, fmt = rng.choice(BLOBS[1:])
            children.append({"kind": "oneBLOB", "attrs": {"name": e["name"], "size": str(len(data)), "format": fmt},
                             "value": base64.b64encode(bytes(data)).decode("ascii")})
        else:
            children.append({"kind": "one" + kind, "attrs": {"name": e["name"]}, "value": client_text_for(rng, kind, e["fmt"])})
    return {"kind": "new%sVector" % kind, "attrs": {"device": device or defn["name"], "name": vname}, "value": None, "children": children}


def random_op(rng, defn, client=True):
    vecs = all_vectors(defn)
    vname = rng.choice(sorted(vecs))
    g, v = vecs[vname]
    r = rng.random()
    kind = v["kind"]
    i = rng.randrange(len(v["elements"]))
    if r < 0.3:
        return ["assign", vname, i, random_value(rng, kind)]
    if r < 0.4:
        return ["setvalue", vname, i, random_value(rng, kind)]
    if r < 0.45 and kind == "Switch":
        return ["selected", vname, sorted(rng.sample(range(len(v["elements"])), rng.randint(0, len(v["elements"]))))]
    if r < 0.55:
        return ["state", vname, rng.choice(msggen.STATES)]
    if r < 0.65:
        return ["envec", vname, rng.random() < 0.6]
    if r < 0.72:
        return ["engrp", g["key"], rng.random() < 0.6]
    if r < 0.78:
        return ["enelem", vname, i, rng.random() < 0.6]
    if client and kind != "Light":
        return ["client", new_message(rng, defn, vname)]
    return ["client", {"kind": "getProperties", "attrs": {"version": "1.7", "device": defn["name"]}, "value": None, "children": None}]
