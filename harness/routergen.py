"""Histories for the router checks (C04, C05) and the reference semantics
written from the property texts."""
from harness import msggen

DEV_IDS = {"A": 10, "B": 11, None: 12}       # device endpoint ids (None = catch-all)
CLIENT_IDS = [1, 2, 3]
CLIENT_KINDS = sorted(msggen.FROM_CLIENT)
DEVICE_KINDS = sorted(msggen.FROM_DEVICE)


def mk_msg(rng, kind, dev, value=None):
    m = msggen.gen_message(rng, kind, max_children=1)
    if "device" in msggen.GRAMMAR[kind][0] + msggen.GRAMMAR[kind][1]:
        if dev is None:
            if "device" in msggen.GRAMMAR[kind][0]:
                return None
            m["attrs"].pop("device", None)
        else:
            m["attrs"]["device"] = dev
    elif dev is not None:
        return None
    if kind == "enableBLOB" and value:
        m["value"] = value
    return m


def model_op(op):
    if op[0] == "regdev":
        return ["regdev", op[1], [] if op[2] is None else [op[2]]]
    if op[0] in ("regcl", "unreg"):
        return [op[0], op[1]]
    m = op[2]
    k = m["kind"]
    return ["send", [] if op[1] is None else [op[1]],
            [k in msggen.FROM_CLIENT, k in msggen.FROM_DEVICE,
             [m["value"]] if k == "enableBLOB" else [],
             k == "setBLOBVector",
             [] if m["attrs"].get("device") is None else [m["attrs"]["device"]]]]


class Reference:
    """the router as the properties C04/C05 describe it"""

    def __init__(self):
        self.devices = []      # (id, name or None)
        self.clients = []
        self.policy = {}       # client -> {device name: policy}

    def apply(self, op):
        if op[0] == "regdev":
            self.devices.append((op[1], op[2]))
            return []
        if op[0] == "regcl":
            self.clients.append(op[1])
            self.policy[op[1]] = {}
            return []
        if op[0] == "unreg":
            if op[1] in self.clients:
                self.clients.remove(op[1])
            self.policy.pop(op[1], None)
            return []
        sender, m = op[1], op[2]
        k, dev = m["kind"], m["attrs"].get("device")
        out = []
        if k in msggen.FROM_CLIENT:
            if k == "enableBLOB" and sender in self.policy:
                self.policy[sender][dev] = m["value"]
            for i, name in self.devices:
                if i != sender and (name is None or dev is None or name == dev):
                    out.append(["d", i])
        if k in msggen.FROM_DEVICE:
            blob = k == "setBLOBVector"
            for c in self.clients:
                if c == sender:
                    continue
                p = self.policy.get(c, {}).get(dev, "Never")
                if {"Never": not blob, "Also": True, "Only": blob}[p]:
                    out.append(["c", c])
        return sorted(out)


def in_scope(scope, op, deliveries):
    """C04 owns deliveries to devices and the relay of client-originated messages;
    C05 owns deliveries of device-originated messages to clients"""
    if op[0] != "send":
        return []
    k = op[2]["kind"]
    if scope == "devices":
        return [x for x in deliveries if x[0] == "d" or k in msggen.FROM_CLIENT]
    return [x for x in deliveries if x[0] == "c" and k in msggen.FROM_DEVICE]


def judge(case, obs, scope):
    """first operation on which the implementation departs from the reference, or None"""
    if obs["status"] != "ok":
        return "router-crashed: %s" % obs.get("detail", obs["status"])
    ref = Reference()
    for i, op in enumerate(case["ops"]):
        exp = ref.apply(op)
        got = obs["ops"][i]
        if got["raised"]:
            return "raised: operation %d %s raised %s" % (i, op[0], got["raised"])
        if in_scope(scope, op, got["out"]) != in_scope(scope, op, exp):
            what = "to-devices" if [x for x in got["out"] if x[0] == "d"] != [x for x in exp if x[0] == "d"] else "to-clients"
            kind = op[2]["kind"] if op[0] == "send" else op[0]
            return "%s: operation %d (%s from %s for device %s) delivered %s, required %s" % (
                what, i, kind, op[1] if op[0] == "send" else "-",
                op[2]["attrs"].get("device") if op[0] == "send" else "-", got["out"], exp)
    if scope == "clients" and (obs["clients"] != sorted(ref.clients) or obs["policy_rows"] != sorted(ref.policy)):
        return "state: registered clients %s / policy rows %s, required %s / %s" % (
            obs["clients"], obs["policy_rows"], sorted(ref.clients), sorted(ref.policy))
    return None


def compare(case, obs, mout, scope):
    if not isinstance(mout, list):
        return "model rejected the history: %r" % (mout,)
    if obs["status"] != "ok":
        return "implementation %s" % obs["status"]
    for i, op in enumerate(case["ops"]):
        mo = sorted([x[0], x[1]] for x in mout[i])
        if obs["ops"][i]["raised"]:
            return "operation %d raised %s; the model delivers %s" % (i, obs["ops"][i]["raised"], mo)
        if in_scope(scope, op, obs["ops"][i]["out"]) != in_scope(scope, op, mo):
            return "operation %d (%s): implementation delivered %s, model %s" % (i, op[0], obs["ops"][i]["out"], mo)
    fin = mout[len(case["ops"])]
    if scope == "clients" and (sorted(fin[0]) != obs["clients"] or sorted(fin[1]) != obs["policy_rows"]):
        return "final registration state differs: impl %s/%s model %s/%s" % (obs["clients"], obs["policy_rows"], fin[0], fin[1])
    return None
