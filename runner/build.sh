#!/bin/sh
# builds runner/modelrun from the extracted runner/model.ml
set -e
cd "$(dirname "$0")"
ocamlfind ocamlopt -O2 -w -a model.mli model.ml driver.ml -o modelrun 2>/dev/null || ocamlfind ocamlopt -w -a model.mli model.ml driver.ml -o modelrun
