(* Reads one S-expression per line, applies Model.dispatch, prints the result.
   Syntax:  ( ... )  list;  a<cp>,<cp>,...  atom of code points;  n<int>  integer. *)
open Model

let rec pos_of_int n =
  if n = 1 then XH else if n land 1 = 0 then XO (pos_of_int (n lsr 1)) else XI (pos_of_int (n lsr 1))
let n_of_int n = if n = 0 then N0 else Npos (pos_of_int n)
let z_of_int n = if n = 0 then Z0 else if n > 0 then Zpos (pos_of_int n) else Zneg (pos_of_int (-n))
let rec int_of_pos = function XH -> 1 | XO p -> 2 * int_of_pos p | XI p -> 2 * int_of_pos p + 1
let int_of_n = function N0 -> 0 | Npos p -> int_of_pos p
let int_of_z = function Z0 -> 0 | Zpos p -> int_of_pos p | Zneg p -> - (int_of_pos p)

let parse_atom tok =
  let body = String.sub tok 1 (String.length tok - 1) in
  if body = "" then SA [] else
  SA (List.map (fun w -> n_of_int (int_of_string w)) (String.split_on_char ',' body))

let parse_line line =
  let toks = List.filter (fun s -> s <> "") (String.split_on_char ' ' line) in
  let rec one = function
    | [] -> failwith "eof"
    | "(" :: rest -> let (items, rest') = many rest [] in (SL items, rest')
    | tok :: rest ->
        if tok.[0] = 'a' then (parse_atom tok, rest)
        else if tok.[0] = 'n' then (SN (z_of_int (int_of_string (String.sub tok 1 (String.length tok - 1)))), rest)
        else failwith ("bad token " ^ tok)
  and many toks acc = match toks with
    | ")" :: rest -> (List.rev acc, rest)
    | [] -> failwith "unclosed"
    | _ -> let (x, rest) = one toks in many rest (x :: acc)
  in fst (one toks)

let rec print b = function
  | SA l ->
      Buffer.add_char b 'a';
      List.iteri (fun i c -> if i > 0 then Buffer.add_char b ','; Buffer.add_string b (string_of_int (int_of_n c))) l
  | SN z -> Buffer.add_char b 'n'; Buffer.add_string b (string_of_int (int_of_z z))
  | SL l ->
      Buffer.add_string b "(";
      List.iter (fun x -> Buffer.add_char b ' '; print b x) l;
      Buffer.add_string b " )"

let () =
  try while true do
    let line = input_line stdin in
    let b = Buffer.create 256 in
    (try print b (dispatch (parse_line line)) with e -> Buffer.add_string b ("aERR " ^ Printexc.to_string e));
    print_string (Buffer.contents b); print_newline ()
  done with End_of_file -> ()
